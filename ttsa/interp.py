"""Structured abstract interpreter over the teneva AST.

* no teneva code is imported or executed; the interpreter walks the syntax
  tree with abstract values (``values.AV``);
* the number of TT cores ``d`` of every tensor argument is concrete (the
  caller instantiates d = 2, 3, 4), so loops over cores are unrolled and lists
  of cores are concrete lists; mode sizes, ranks and sample counts stay
  symbolic (``poly.Poly``) and range over all positive integers;
* flags are concrete per run (the caller enumerates documented literals), so
  most branches are decided; an undecided branch executes both arms on
  shallow copies of the local environment and joins them (heap stores made
  under an undecided condition are weak updates);
* calls of teneva functions are analysed by inlining (context sensitive);
  NumPy / SciPy / opt_einsum calls go through ``npmodel``;
* anything not understood evaluates to Top and never produces a violation.
"""
import ast
from fractions import Fraction

from .poly import Poly, Lin, fn_atom, pmin, pmax, same, definitely_differ, \
    lower_bound
from .values import AV, TOP, NONE, BOOL, INT, FLOAT, STR, ARR, LIST, TUPLE, \
    DICT, EXT, GEN, NOCONST, from_const, join, join_all, join_dim, \
    SymKey, dict_key
from . import model

MAX_DEPTH = 9
UNROLL_CAP = 40
SYM_ROUNDS = 3


class Outcome:
    __slots__ = ('kind', 'env', 'val', 'node')

    def __init__(self, kind, env, val=None, node=None):
        self.kind = kind      # next | ret | brk | cont | raise
        self.env = env
        self.val = val
        self.node = node


class Frame:
    def __init__(self, fn, mod, closure=None, self_=None):
        self.fn = fn
        self.mod = mod
        self.closure = closure    # enclosing env dict (nested defs)
        self.self_ = self_
        self.returns = []


TRANSPARENT = {'utils._reshape'}


class Site:
    __slots__ = ('rule', 'where', 'mod', 'node', 'status', 'detail', 'facts',
                 'construct', 'stack')

    def __init__(self, rule, where, mod, node, status, detail, facts,
                 construct, stack):
        self.rule = rule
        self.where = where
        self.mod = mod
        self.node = node
        self.status = status
        self.detail = detail
        self.facts = facts
        self.construct = construct
        self.stack = stack


class Effect:
    __slots__ = ('kind', 'labels', 'where', 'mod', 'node', 'construct',
                 'stack', 'cond')

    def __init__(self, kind, labels, where, mod, node, construct, stack, cond):
        self.kind = kind          # 'array-write' | 'list-write' | 'dict-write' | 'attr-write'
        self.labels = labels
        self.where = where
        self.mod = mod
        self.node = node
        self.construct = construct
        self.stack = stack
        self.cond = cond


class AbstractRaise(Exception):
    """A call whose every abstract path raises: propagated to the calling
    statement, where it becomes a 'raise' outcome."""

    def __init__(self, name):
        Exception.__init__(self, name)
        self.name = name


class Interp:
    def __init__(self, prog, opts=None):
        self.prog = prog
        self.opts = opts or {}
        self.stack = []
        self.sites = []
        self.effects = []
        self.ext_calls = []       # (qualified name, node, mod, where, nargs, kwnames)
        self.draws = []           # (method, receiver AV, node, mod, where)
        self.unresolved = []
        self.cb_calls = []
        self._nonlocal_out = None
        self.call_log = []        # (qualname, {param: AV at entry}, result)
        # parallel to call_log: undecided-branch depth / weak-update depth at
        # the call and the calling function
        self.call_meta = []
        self.cond_tests = []      # undecided If tests currently open
        self.cond = 0
        self.weak = 0
        self.fresh_n = 0
        self.visited_fns = set()
        self.default_objs = {}
        self.entry_returns = []
        self.entry_return_nodes = []
        self.raises = []
        self.trace_hooks = {}     # qualname -> callable(interp, fn, env, outcome)
        from . import npmodel
        self.np = npmodel.Model(self)

    # ------------------------------------------------------------------
    # bookkeeping
    def where(self):
        for fr in reversed(self.stack):
            if fr.fn is not None:
                return fr.fn.qualname
        return '<module>'

    def mod(self):
        return self.stack[-1].mod if self.stack else None

    def call_stack(self):
        return tuple(fr.fn.qualname for fr in self.stack if fr.fn is not None)

    def site(self, rule, node, status, detail='', facts=None, construct=None):
        mod = self.mod()
        if construct is None:
            construct = model.norm_src(mod, node) if mod is not None else ''
        self.sites.append(Site(rule, self.where(), mod, node, status, detail,
                               facts or {}, construct, self.call_stack()))

    def effect(self, kind, target, node):
        labels = set()
        if target is None:
            return
        if target.k == 'arr' or target.k == 'top':
            labels |= set(target.org)
        elif target.is_heap() or target.k in ('list', 'tuple'):
            if target.label is not None:
                labels |= _flat_labels(target.label)
        if not labels:
            return
        mod = self.mod()
        self.effects.append(Effect(kind, frozenset(labels), self.where(), mod,
                                   node, model.norm_src(mod, node),
                                   self.call_stack(), self.cond))

    def fresh(self, tag, node=None):
        self.fresh_n += 1
        ln = getattr(node, 'lineno', 0)
        return Poly.sym((tag, self.where(), ln, self.fresh_n))

    # ------------------------------------------------------------------
    # entry
    def run_function(self, fn, args, self_=None):
        """Analyse ``fn`` with the abstract arguments ``args`` (dict name ->
        AV; missing parameters take their defaults).  Returns the joined
        return value; per-path returns are in ``self.entry_returns``."""
        self.entry_returns = []
        from . import poly as _poly
        saved = _poly.EXPAND[0]
        _poly.EXPAND[0] = bool(self.opts.get('expand'))
        _poly.LOWER.clear()
        _poly.LOWER.update(self.opts.get('lower_bounds') or {})
        try:
            val = self.call_teneva(fn, [], dict(args), None, self_=self_,
                                   entry=True)
        finally:
            _poly.EXPAND[0] = saved
        return val

    # ------------------------------------------------------------------
    # calls of teneva functions (inlined)
    def call_teneva(self, fn, pos, kw, node, self_=None, entry=False,
                    closure=None):
        if isinstance(fn, model.ClassInfo):
            return self.instantiate(fn, pos, kw, node)
        summ = (self.opts.get('summary') or {}).get(fn.qualname)
        if summ is not None and not entry:
            self.visited_fns.add(fn.qualname)
            return summ(self, fn, pos, kw, node)
        depth = len(self.stack)
        if depth >= MAX_DEPTH or any(fr.fn is fn for fr in self.stack):
            # recursion / depth bound: result unknown, arguments untouched
            return TOP('recursion')
        self.visited_fns.add(fn.qualname)
        env = {}
        from . import poly as _poly0
        order0 = list(_poly0.ORDER_FACTS)
        if not entry and order0:
            # ordering facts are about size SYMBOLS: they hold in the callee
            env['$order'] = tuple(order0)
        params = fn.params
        if fn.cls is not None and params and params[0] == 'self':
            env['self'] = self_ if self_ is not None else TOP()
            params = params[1:]
        for name, val in zip(params, pos):
            env[name] = val
        a_sig = getattr(fn.node, 'args', None)
        vararg = getattr(a_sig, 'vararg', None) if a_sig is not None else None
        kwarg = getattr(a_sig, 'kwarg', None) if a_sig is not None else None
        if len(pos) > len(params):
            if vararg is not None:
                # def f(a, *rest): the surplus is collected
                env[vararg.arg] = TUPLE(list(pos[len(params):]))
            else:
                self.site('X-arity', node or fn.node, 'violation',
                          'too many positional arguments for %s'
                          % fn.qualname)
        elif vararg is not None:
            env[vararg.arg] = TUPLE([])
        extra_kw = {}
        for name, val in kw.items():
            if name in fn.all_params:
                env[name] = val
            elif kwarg is not None:
                extra_kw[name] = val
            else:
                self.site('X-arity', node or fn.node, 'violation',
                          'unexpected keyword %s for %s' % (name, fn.qualname))
        if kwarg is not None:
            env[kwarg.arg] = DICT(dict(extra_kw))
        defaults = fn.defaults()
        frame = Frame(fn, fn.module, closure=closure, self_=self_)
        self.stack.append(frame)
        try:
            for name in fn.all_params:
                if name in env or name == 'self':
                    continue
                if name in defaults:
                    env[name] = self.eval_default(fn, name, defaults[name])
                else:
                    env[name] = TOP('missing-arg')
            args0 = dict(env)
            cond0, weak0 = self.cond, self.weak
            tests0 = list(self.cond_tests)
            body = fn.node.body
            split = (self.opts.get('split') or {}).get(fn.qualname)
            if split and not any((fn.qualname, t) in (self.opts.get('assume')
                                                      or {}) for t in split):
                # correlated case split on listed (side-effect free) tests
                import itertools as _it
                outs = []
                saved = dict(self.opts.get('assume') or {})

                def _cases(t):
                    if isinstance(t, tuple) and t[0] == 'order':
                        return ('lt', 'eq', 'gt')
                    if isinstance(t, tuple) and t[0] == 'magnitude':
                        return ('big', 'tiny')
                    return (True, False)
                for pols in _it.product(*[_cases(t) for t in split]):
                    a = dict(saved)
                    for t, p in zip(split, pols):
                        a[(fn.qualname, t)] = p
                    self.opts['assume'] = a
                    try:
                        outs.extend(self.exec_block(body, dict(env)))
                    finally:
                        self.opts['assume'] = saved
            else:
                outs = self.exec_block(body, env)
            rets = []
            ret_nodes = []
            for oc in outs:
                if oc.kind == 'ret':
                    rets.append(oc.val)
                    ret_nodes.append(oc.node)
                elif oc.kind == 'next':
                    rets.append(NONE())
                    ret_nodes.append(None)
                elif oc.kind == 'raise':
                    self.raises.append((fn.qualname, oc.val))
            if entry:
                self.entry_returns = list(rets)
                self.entry_return_nodes = list(ret_nodes)
            hook = self.trace_hooks.get(fn.qualname)
            if hook:
                hook(self, fn, outs)
            nl_names = [g_ for n_ in ast.walk(fn.node)
                        if isinstance(n_, ast.Nonlocal) and
                        model.enclosing_function(self.prog, fn.module, n_)
                        is fn for g_ in n_.names] \
                if isinstance(fn.node, ast.FunctionDef) else []
            if nl_names:
                envs_ = [oc.env for oc in outs if oc.kind in ('ret', 'next')
                         and oc.env is not None]
                out_nl = {}
                for g_ in nl_names:
                    vals_ = [e_[g_] for e_ in envs_ if g_ in e_ and
                             isinstance(e_[g_], AV)]
                    if vals_:
                        out_nl[g_] = join_all(vals_) if len(vals_) > 1 \
                            else vals_[0]
                self._nonlocal_out = out_nl
            if not entry and not rets and \
                    any(oc.kind == 'raise' for oc in outs):
                # every abstract path of the callee raises: the exception
                # reaches the calling statement (no value comes back)
                raise AbstractRaise([oc.val for oc in outs
                                     if oc.kind == 'raise'][0])
            res = self.join_returns(rets)
            if len(self.call_log) < 20000:
                self.call_log.append((fn.qualname, args0, res))
                self.call_meta.append({
                    'cond': cond0, 'weak': weak0, 'tests': tests0,
                    'caller': self.stack[-2].fn.qualname
                    if len(self.stack) > 1 and
                    self.stack[-2].fn is not None else None})
            return res
        finally:
            self.stack.pop()
            _poly0.ORDER_FACTS[:] = order0

    def join_returns(self, rets):
        if not rets:
            return TOP('no-return')
        uniq = {}
        for r in rets:
            uniq.setdefault(r.key(), r)
        vals = list(uniq.values())
        if len(vals) == 1:
            return vals[0]
        vals = subsume_zero(vals)
        if len(vals) == 1:
            return vals[0]
        return join_all(vals)

    def eval_default(self, fn, name, node):
        key = (fn.qualname, name)
        if isinstance(node, (ast.Dict, ast.List, ast.Set)):
            if key not in self.default_objs:
                saved = self.stack
                self.stack = [Frame(None, fn.module)]
                try:
                    v = self.eval(node, {})
                finally:
                    self.stack = saved
                if v.is_heap():
                    v.label = ('D', fn.qualname, name)
                self.default_objs[key] = v
            return self.default_objs[key]
        saved = self.stack
        self.stack = [Frame(None, fn.module)]
        try:
            return self.eval(node, {})
        finally:
            self.stack = saved

    def instantiate(self, ci, pos, kw, node):
        obj = AV('obj', attrs={}, cls=ci)
        init = ci.methods.get('__init__')
        if init is not None:
            self.call_teneva(init, pos, kw, node, self_=obj)
        return obj

    # ------------------------------------------------------------------
    # statements
    def exec_block(self, stmts, env):
        pending = [env]
        results = []
        for stmt in stmts:
            nxt = []
            for e in pending:
                for oc in self.exec_stmt(stmt, e):
                    if oc.kind == 'next':
                        nxt.append(oc.env)
                    else:
                        results.append(oc)
            if len(nxt) > 1:
                nxt = [self.join_envs(nxt)]
            pending = nxt
            if not pending:
                break
        results.extend(Outcome('next', e) for e in pending)
        return results

    def join_envs(self, envs):
        envs = [e for e in envs if e is not None]
        if len(envs) == 1:
            return envs[0]
        out = {}
        names = set()
        for e in envs:
            names |= set(e)
        for n in names:
            vals = [e[n] for e in envs if n in e]
            if n == '$order':
                if len(vals) < len(envs):
                    out[n] = ()
                else:
                    out[n] = tuple(f for f in vals[0]
                                   if all(f in v for v in vals[1:]))
                continue
            if n == '$bdefs':
                if len(vals) < len(envs):
                    out[n] = {}
                else:
                    out[n] = {k: v for k, v in vals[0].items()
                              if all(w.get(k) is not None and w[k][0] is v[0]
                                     for w in vals[1:])}
                continue
            if n == '$facts':
                common = set(vals[0])
                for v in vals[1:]:
                    common &= set(v)
                if len(vals) < len(envs):
                    common = set()
                out[n] = tuple(sorted(common))
                continue
            v = vals[0]
            for w in vals[1:]:
                v = join(v, w)
            out[n] = v
        return out

    def exec_stmt(self, st, env):
        m = getattr(self, 'st_' + type(st).__name__, None)
        if m is None:
            return [Outcome('next', env)]
        from . import poly as _poly
        _poly.ORDER_FACTS[:] = list(env.get('$order', ()))
        ein = self.opts.get('expand_in')
        if ein is not None:
            w = self.where()
            if w in TRANSPARENT:
                # thin wrappers inherit the setting of their caller
                for fr in reversed(self.stack):
                    if fr.fn is not None and fr.fn.qualname not in TRANSPARENT:
                        w = fr.fn.qualname
                        break
            _poly.EXPAND[0] = w in ein
        try:
            return m(st, env)
        except AbstractRaise as ex:
            return [Outcome('raise', env, ex.name)]

    def add_order(self, env, test, pol):
        """Record an ordering fact from an undecided integer comparison."""
        if isinstance(test, ast.UnaryOp) and isinstance(test.op, ast.Not):
            return self.add_order(env, test.operand, not pol)
        if not (isinstance(test, ast.Compare) and len(test.ops) == 1):
            return
        a = self.eval(test.left, env)
        b = self.eval(test.comparators[0], env)
        if a.k != 'int' or b.k != 'int' or a.p is None or b.p is None:
            return
        op = type(test.ops[0])
        pa, pb = a.p, b.p
        fact = None
        if op in (ast.LtE,):
            fact = (pa, pb) if pol else (pb + 1, pa)
        elif op is ast.Lt:
            fact = (pa + 1, pb) if pol else (pb, pa)
        elif op is ast.GtE:
            fact = (pb, pa) if pol else (pa + 1, pb)
        elif op is ast.Gt:
            fact = (pb + 1, pa) if pol else (pa, pb)
        if fact is not None:
            env['$order'] = tuple(env.get('$order', ())) + (fact,)

    def st_Pass(self, st, env):
        return [Outcome('next', env)]

    st_Import = st_ImportFrom = st_Global = st_Nonlocal = st_Pass

    def st_Expr(self, st, env):
        self.eval(st.value, env)
        return [Outcome('next', env)]

    def st_Assert(self, st, env):
        self.eval(st.test, env)
        self.refine(st.test, env, True)
        return [Outcome('next', env)]

    def st_Delete(self, st, env):
        for t in st.targets:
            if isinstance(t, ast.Name):
                env.pop(t.id, None)
            elif isinstance(t, ast.Subscript):
                base = self.eval(t.value, env)
                self.effect('list-write' if base.k == 'list' else
                            'dict-write' if base.k == 'dict' else
                            'array-write', base, st)
        return [Outcome('next', env)]

    def st_Return(self, st, env):
        # ``return a if c else b`` with an undecided c is two return paths
        if isinstance(st.value, ast.IfExp):
            c = self.eval(st.value.test, env)
            if self.truth(c) is None and \
                    self.assumed(st.value.test, env) is None:
                outs = []
                for arm, pol in ((st.value.body, True),
                                 (st.value.orelse, False)):
                    e = dict(env)
                    self.refine(st.value.test, e, pol)
                    self.add_fact(e, st.value.test, pol)
                    self.cond += 1
                    try:
                        v = snapshot(self.eval(arm, e))
                    finally:
                        self.cond -= 1
                    outs.append(Outcome('ret', e, v, node=st))
                cj = self.cond_join(st.value.test, env, outs[0].val,
                                    outs[1].val)
                if cj is not None:
                    return [Outcome('ret', env, cj, node=st)]
                return outs
        v = self.eval(st.value, env) if st.value is not None else NONE()
        if self.cond > 0:
            v = snapshot(v)
        return [Outcome('ret', env, v, node=st)]

    def st_Raise(self, st, env):
        name = None
        if st.exc is not None:
            f = st.exc.func if isinstance(st.exc, ast.Call) else st.exc
            name = self.prog.dotted(f)
        return [Outcome('raise', env, name)]

    def st_Break(self, st, env):
        return [Outcome('brk', env)]

    def st_Continue(self, st, env):
        return [Outcome('cont', env)]

    def st_FunctionDef(self, st, env):
        outer = self.stack[-1].fn
        fn = None
        if outer is not None:
            fn = outer.nested.get(st.name)
        if fn is None:
            q = self.where() + '.' + st.name
            fn = self.prog.functions.get(q)
        if fn is None:
            fn = model.Function(self.mod(), st, self.where() + '.' + st.name,
                                parent=outer)
        env[st.name] = AV('func', fn=fn, env=env)
        return [Outcome('next', env)]

    def st_Assign(self, st, env):
        v = self.eval(st.value, env)
        for t in st.targets:
            self.assign(t, v, env, st)
        self._note_bool_defs(st, env)
        return [Outcome('next', env)]

    def _note_bool_defs(self, st, env):
        """``flag = <test expression>``: remember the expression, so that a
        later ``if flag`` / ``x if not flag else y`` yields the facts of the
        expression itself.  An entry dies when one of its names is re-bound."""
        defs = dict(env.get('$bdefs', {}))
        stored = {n.id for t in st.targets for n in ast.walk(t)
                  if isinstance(n, ast.Name) and isinstance(n.ctx, ast.Store)}
        for nm in list(defs):
            if nm in stored or (defs[nm][1] & stored):
                del defs[nm]
        pairs = []
        if len(st.targets) == 1:
            t, v = st.targets[0], st.value
            if isinstance(t, ast.Name):
                pairs.append((t, v))
            elif isinstance(t, ast.Tuple) and isinstance(v, ast.Tuple) and \
                    len(t.elts) == len(v.elts):
                pairs.extend(zip(t.elts, v.elts))
        for t, v in pairs:
            if isinstance(t, ast.Name) and isinstance(
                    v, (ast.BoolOp, ast.Compare)) or (
                    isinstance(t, ast.Name) and isinstance(v, ast.UnaryOp)
                    and isinstance(v.op, ast.Not)):
                used = frozenset(n.id for n in ast.walk(v)
                                 if isinstance(n, ast.Name))
                if t.id not in used:
                    defs[t.id] = (v, used)
        if defs or '$bdefs' in env:
            env['$bdefs'] = defs

    def st_AnnAssign(self, st, env):
        if st.value is not None:
            v = self.eval(st.value, env)
            self.assign(st.target, v, env, st)
        return [Outcome('next', env)]

    def st_AugAssign(self, st, env):
        t = st.target
        cur = self.eval(t, env)
        rhs = self.eval(st.value, env)
        res = self.np.binop(st.op, cur, rhs, st, inplace=True, env=env)
        if cur.k in ('arr',) or (cur.k == 'top' and cur.org):
            # in-place: same buffer
            self.effect('array-write', cur, st)
            res = res.copy(org=cur.org)
            if isinstance(t, ast.Name):
                self.rebind_array(env, t.id, cur, res)
                self.alias_rows(env, cur, res)
            elif isinstance(t, ast.Subscript):
                base = self.eval(t.value, env)
                if base.k in ('list', 'dict'):
                    self.store_subscript(t, res, env, st, same_object=True)
                    self.alias_rows(env, cur, res)
                elif base.k == 'arr' and isinstance(t.value, ast.Name):
                    # writing a region of base: taint / orth of base change
                    nb = base.copy(orth=None, taint=base.taint | res.taint,
                                   lg=None)
                    self.rebind_array(env, t.value.id, base, nb)
                elif base.k == 'arr':
                    self._store_into_element(t.value, base, res, env, st)
            elif isinstance(t, ast.Attribute):
                self.assign(t, res, env, st)
            return [Outcome('next', env)]
        if cur.k == 'list' and isinstance(st.op, ast.Add):
            self.effect('list-write', cur, st)
            self.list_extend(cur, rhs)
            return [Outcome('next', env)]
        self.assign(t, res, env, st)
        return [Outcome('next', env)]

    def rebind_array(self, env, name, old, new):
        """In-place change of the array bound to ``name``: every list that
        holds the IDENTICAL abstract object (``G = Z[k]`` / ``for G in Z``)
        sees the new contents too (must-alias by object identity)."""
        env[name] = new
        if old is None or old is new:
            return
        seen = set()

        def walk(v, depth):
            if not isinstance(v, AV) or id(v) in seen or depth > 3:
                return
            seen.add(id(v))
            if v.k in ('list', 'tuple') and v.items is not None:
                for i, x in enumerate(v.items):
                    if x is old:
                        if v.k == 'list':
                            v.items[i] = new
                    else:
                        walk(x, depth + 1)
            elif v.k == 'dict' and v.keys:
                for kk, x in list(v.keys.items()):
                    if x is old:
                        v.keys[kk] = new
                    else:
                        walk(x, depth + 1)
        for n, v in list(env.items()):
            if n != name and isinstance(v, AV):
                if v is old:
                    env[n] = new
                else:
                    walk(v, 0)

    def alias_rows(self, env, cur, res):
        """An in-place change of ``cur`` = view ``M[i]`` changes every other
        view of the same row of the same matrix object (must alias: same
        constant i) and may change views with an unknown index."""
        if not (isinstance(cur.rel, tuple) and cur.rel[0] == 'row'):
            return
        base, idx = cur.rel[1], cur.rel[2]
        ic = idx.c if idx.has_const() else None

        def fix(x):
            if not isinstance(x, AV) or x is cur or x is res or \
                    x.k != 'arr' or not (isinstance(x.rel, tuple) and
                                         x.rel[0] == 'row' and
                                         x.rel[1] is base):
                return x
            jc = x.rel[2].c if x.rel[2].has_const() else None
            if ic is not None and jc is not None:
                if ic != jc:
                    return x
                return res.copy(rel=x.rel, org=x.org)
            return x.copy(degq=True, lg=None, orth=None, deg=None)
        seen = set()

        def walk(v, depth):
            if not isinstance(v, AV) or id(v) in seen or depth > 3:
                return
            seen.add(id(v))
            if v.k == 'list' and v.items is not None:
                for i_, x in enumerate(v.items):
                    nx = fix(x)
                    if nx is not x:
                        v.items[i_] = nx
                    else:
                        walk(x, depth + 1)
        for n, v in list(env.items()):
            if isinstance(v, AV):
                nv = fix(v)
                if nv is not v:
                    env[n] = nv
                else:
                    walk(v, 0)

    def write_through(self, t, res, env, st):
        """Store ``res`` into the buffer denoted by expression ``t``
        (``out=t``): same object, new contents."""
        cur = self.eval(t, env)
        if cur.k not in ('arr',) and not (cur.k == 'top' and cur.org):
            return
        self.effect('array-write', cur, st)
        new = res.copy(org=cur.org)
        if isinstance(t, ast.Name):
            self.rebind_array(env, t.id, cur, new)
        elif isinstance(t, ast.Subscript):
            base = self.eval(t.value, env)
            if base.k in ('list', 'dict'):
                self.store_subscript(t, new, env, st, same_object=True)
            elif base.k == 'arr' and isinstance(t.value, ast.Name):
                nb = base.copy(orth=None, taint=base.taint | res.taint,
                               lg=None, deg=None, delta=None, src=None,
                               nonneg=False, normed=False, note=None)
                self.rebind_array(env, t.value.id, base, nb)

    def _store_into_element(self, tnode, base, res, env, st):
        """A[k][...] op= v  : update facets of element A[k] held in a list."""
        if isinstance(tnode, ast.Subscript):
            holder = self.eval(tnode.value, env)
            if holder.k == 'list' and holder.items is not None:
                idx = self.eval(tnode.slice, env)
                if idx.k == 'int' and idx.has_const():
                    try:
                        old = holder.items[idx.c]
                    except IndexError:
                        return
                    new = old.copy(orth=None, taint=old.taint | res.taint,
                                   lg=None)
                    if isinstance(st, ast.Assign):
                        # plain store of a value into a (zero) array; a
                        # numeric literal has degree 0 in every scalar
                        if res.deg is None and res.has_const() and \
                                isinstance(res.c, (int, float)) and \
                                not isinstance(res.c, bool):
                            res = res.copy(deg={})
                        if old.note == 'zeros' and res.deg is not None and \
                                (old.deg in (None, {}) or old.deg == res.deg):
                            new.deg = res.deg
                        elif old.deg is not None and res.deg is not None \
                                and old.deg == res.deg:
                            new.deg = res.deg
                        else:
                            new.deg = None if (res.deg or old.deg) else old.deg
                        new.deg_alt = None
                        if old.note == 'zeros' and res.deg is None and \
                                res.deg_alt and old.deg in (None, {}):
                            new.deg_alt = list(res.deg_alt)
                        zero = res.has_const() and \
                            isinstance(res.c, (int, float)) and res.c == 0
                        if zero or (res.lg is not None and res.lg == old.lg):
                            new.lg = old.lg
                    else:
                        new.deg = res.deg
                        new.deg_alt = res.deg_alt
                        new.lg = res.lg
                    holder.items[idx.c] = new

    def st_If(self, st, env):
        cond = self.eval(st.test, env)
        self.truth_site(cond, st.test)
        t = self.truth(cond)
        if t is None:
            t = self.assumed(st.test, env)
            if t is not None:
                self.add_fact(env, st.test, t)
        if t is True:
            e = env
            self.refine(st.test, e, True)
            return self.exec_block(st.body, e)
        if t is False:
            e = env
            self.refine(st.test, e, False)
            return self.exec_block(st.orelse, e)
        # undecided: both arms.  The first arm runs on a forked copy of the
        # heap reachable from the environment (strong updates, isolated from
        # the second arm); heaps are merged back where both arms fall through.
        e1, pairs = fork_env(env)
        e2 = dict(env)
        self.refine(st.test, e1, True)
        self.refine(st.test, e2, False)
        self.add_fact(e1, st.test, True)
        self.add_fact(e2, st.test, False)
        self.add_order(e1, st.test, True)
        self.add_order(e2, st.test, False)
        self.cond += 1
        kinds = set()
        for nm in ast.walk(st.test):
            if isinstance(nm, ast.Name) and isinstance(env.get(nm.id), AV):
                kinds.add(env[nm.id].k)
        self.cond_tests.append((st.test, frozenset(kinds)))
        try:
            o1 = self.exec_block(st.body, e1)
            o2 = self.exec_block(st.orelse, e2)
        finally:
            self.cond -= 1
            self.cond_tests.pop()
            # the ordering facts of the arm that ran last do not hold after it
            from . import poly as _poly
            _poly.ORDER_FACTS[:] = list(env.get('$order', ()))
        n1 = [o.env for o in o1 if o.kind == 'next']
        n2 = [o.env for o in o2 if o.kind == 'next']
        rest = [o for o in o1 + o2 if o.kind != 'next']
        entry = len(self.stack) <= 1
        cont1 = [o for o in o1 if o.kind in ('brk', 'cont') or
                 (o.kind in ('ret', 'raise') and not entry)]
        if n1 or cont1:
            # the other arm continues on the original heap unless all of its
            # outcomes leave the analysed entry function
            other_continues = any(o.kind in ('next', 'brk', 'cont') or
                                  not entry for o in o2)
            merge_heap(pairs, both=other_continues or not n1)
            n1 = [unfork_env(e, pairs) for e in n1]
            rev = {id(c): o for o, c in pairs.values()}
            for o in cont1:
                o.env = unfork_env(o.env, pairs)
                if o.val is not None and isinstance(o.val, AV):
                    o.val = _map_back(o.val, rev, set())
        nxt = n1 + n2
        if len(nxt) >= 2:
            merged = self.join_envs(nxt)
            if len(n1) == 1 and len(n2) == 1:
                # integer variables set by the arms of a comparison:
                #   if q > r: q = r        ->  q = min(q, r)
                for nm in list(merged):
                    if nm.startswith('$'):
                        continue
                    v1, v2 = n1[0].get(nm), n2[0].get(nm)
                    if isinstance(v1, AV) and isinstance(v2, AV) and \
                            v1 is not v2 and v1.k == 'int' and v2.k == 'int':
                        cj = self.cond_join(st.test, env, v1, v2)
                        if cj is not None:
                            merged[nm] = cj
            return rest + [Outcome('next', merged)]
        return rest + [Outcome('next', e) for e in nxt]

    def assumed(self, test, env=None):
        """Case split requested by the caller: opts['assume'] maps
        (function qualname, normalised test source) -> bool."""
        table = self.opts.get('assume')
        if not table:
            return None
        # a boolean temporary (is_wide = m <= n) is decided as its definition
        pol = True
        t0 = test
        while isinstance(t0, ast.UnaryOp) and isinstance(t0.op, ast.Not):
            t0, pol = t0.operand, not pol
        if env is not None and isinstance(t0, ast.Name) and \
                t0.id in env.get('$bdefs', {}):
            r = self.assumed(env['$bdefs'][t0.id][0], env)
            return None if r is None else (r if pol else not r)
        where = self.where()
        src = model.norm_src(self.mod(), test)
        if (where, src) in table:
            return table[(where, src)]
        for (w, key), val in table.items():
            if w != where or not isinstance(key, tuple):
                continue
            if key[0] == 'order':
                # comparison of two integer names under an assumed ordering
                from .rules_formula import _eval_cmp
                from . import roles as _roles
                fn_ = self.prog.func(where) if hasattr(self.prog, 'func') \
                    else None
                a = _roles.resolve(fn_, key[1]) if fn_ else key[1]
                b = _roles.resolve(fn_, key[2]) if fn_ else key[2]
                if a is None or b is None:
                    continue
                env = {'lt': {a: 1, b: 2}, 'eq': {a: 2, b: 2},
                       'gt': {a: 2, b: 1}}[val]
                try:
                    r = _eval_cmp(test, env)
                except Exception:
                    r = None
                if r is not None:
                    return bool(r)
            elif key[0] == 'magnitude':
                # abs(x) compared with a positive literal: x 'big' or 'tiny'
                r = _magnitude_test(test, key[1], val)
                if r is not None:
                    return r
        return None

    def add_fact(self, env, test, pol):
        mod = self.mod()
        parts = [test]
        # (a and b) true => a, b true ; (a or b) false => a, b false
        if isinstance(test, ast.BoolOp) and (
                (isinstance(test.op, ast.And) and pol) or
                (isinstance(test.op, ast.Or) and not pol)):
            parts = list(test.values)
        if isinstance(test, ast.UnaryOp) and isinstance(test.op, ast.Not):
            return self.add_fact(env, test.operand, not pol)
        for p in parts:
            # a boolean temporary stands for its defining expression
            if isinstance(p, ast.Name) and p.id in env.get('$bdefs', {}):
                self.add_fact(env, env['$bdefs'][p.id][0], pol)
        facts = tuple(env.get('$facts', ()))
        for p in parts:
            facts = facts + ((model.norm_src(mod, p), pol),)
            # W = abs(B):  a fact about W[idx] is a fact about abs(B[idx])
            # (elementwise: np.abs(B)[idx] == np.abs(B[idx]))
            import copy as _copy
            p2 = None
            for sub_ in ast.walk(p):
                if isinstance(sub_, ast.Subscript) and \
                        isinstance(sub_.value, ast.Name):
                    wv = env.get(sub_.value.id)
                    if isinstance(wv, AV) and wv.k == 'arr' and \
                            isinstance(wv.rel, tuple) and \
                            wv.rel[0] == 'absof':
                        src_nm = [nm for nm, vv in env.items()
                                  if vv is wv.rel[1] and
                                  not nm.startswith('$')]
                        if src_nm:
                            class _R(ast.NodeTransformer):
                                def visit_Subscript(self_, n_):
                                    if isinstance(n_.value, ast.Name) and \
                                            n_.value.id == sub_.value.id:
                                        inner = ast.Subscript(
                                            value=ast.Name(id=src_nm[0],
                                                           ctx=ast.Load()),
                                            slice=n_.slice, ctx=ast.Load())
                                        return ast.Call(
                                            func=ast.Name(id='abs',
                                                          ctx=ast.Load()),
                                            args=[inner], keywords=[])
                                    return n_
                            p2 = _R().visit(_copy.deepcopy(p))
                            break
            if p2 is not None:
                try:
                    facts = facts + ((ast.unparse(ast.fix_missing_locations(
                        p2)), pol),)
                except Exception:
                    pass
            # the guarded scalar keeps the fact when it is passed on to a
            # helper:  |x| > c  (or  not |x| <= c)  marks the VALUE of x
            from .npmodel import _guards
            for nm in {n.id for n in ast.walk(p) if isinstance(n, ast.Name)}:
                v = env.get(nm)
                if isinstance(v, AV) and v.k in ('float', 'int') and \
                        not v.has_const() and v.note is None and \
                        _guards(model.norm_src(mod, p), pol, nm):
                    env[nm] = v.copy(note='nonzero')
        env['$facts'] = facts

    def st_While(self, st, env):
        results = []
        cur = env
        rounds = 2              # iterations explored with an UNDECIDED test
        n_und = 0
        for _ in range(UNROLL_CAP):
            cond = self.eval(st.test, cur)
            t = self.truth(cond)
            if t is False:
                break
            undecided = t is None
            # ``while True`` (and any test without a variable) never turns
            # false by itself: explored like an undecided loop
            endless = t is True and not any(
                isinstance(x, ast.Name) for x in ast.walk(st.test))
            if undecided or endless:
                n_und += 1
                if n_und > rounds:
                    break
            if undecided:
                self.cond += 1
                self.weak += 1
            try:
                outs = self.exec_block(st.body, dict(cur))
            finally:
                if undecided:
                    self.cond -= 1
                    self.weak -= 1
            nxt = []
            for oc in outs:
                if oc.kind in ('next', 'cont'):
                    nxt.append(oc.env)
                elif oc.kind == 'brk':
                    results.append(Outcome('next', oc.env))
                else:
                    results.append(oc)
            if not nxt:
                cur = None
                break
            new = self.join_envs(nxt)
            if undecided:
                results.append(Outcome('next', cur))
            cur = new
        if cur is not None:
            cond = self.eval(st.test, cur)
            t = self.truth(cond)
            if t is not True:
                results.append(Outcome('next', cur))
            # a loop that is still running after the explored rounds is not
            # followed further (continuation unexplored; sound for "no alarm")
        nxt = [o.env for o in results if o.kind == 'next']
        rest = [o for o in results if o.kind != 'next']
        if len(nxt) > 1:
            rest.append(Outcome('next', self.join_envs(nxt)))
        else:
            rest.extend(Outcome('next', e) for e in nxt)
        return rest

    def st_For(self, st, env):
        it = self.eval(st.iter, env)
        items, elem, count = self.iter_model(it, st.iter)
        results = []
        if items is not None and len(items) <= UNROLL_CAP:
            cur = env
            for item in items:
                self.assign(st.target, item, cur, st)
                outs = self.exec_block(st.body, cur)
                nxt = []
                for oc in outs:
                    if oc.kind in ('next', 'cont'):
                        nxt.append(oc.env)
                    elif oc.kind == 'brk':
                        results.append(Outcome('next', oc.env))
                    else:
                        results.append(oc)
                if not nxt:
                    cur = None
                    break
                cur = nxt[0] if len(nxt) == 1 else self.join_envs(nxt)
            if cur is not None:
                if st.orelse:
                    results.extend(self.exec_block(st.orelse, cur))
                else:
                    results.append(Outcome('next', cur))
        else:
            # symbolic trip count: fix-point with widening
            may_zero = True
            if count is not None:
                lb = lower_bound(count, self.opts.get('lower_bounds'))
                if lb is not None and lb >= 1:
                    may_zero = False
            head = dict(env)
            exits = []
            body_out = None
            # the body runs an unknown number of times: every update inside is
            # a weak one (appends summarise, stores join)
            self.weak += 1
            if may_zero:
                self.cond += 1
            try:
                for rnd in range(SYM_ROUNDS + 1):
                    cur = dict(head)
                    self.assign(st.target, elem if elem is not None else TOP(),
                                cur, st)
                    outs = self.exec_block(st.body, cur)
                    nxt = []
                    exits = []
                    for oc in outs:
                        if oc.kind in ('next', 'cont'):
                            nxt.append(oc.env)
                        elif oc.kind == 'brk':
                            exits.append(oc.env)
                        else:
                            results.append(oc)
                    if not nxt:
                        body_out = None
                        break
                    body_out = self.join_envs(nxt)
                    new_head = self.join_envs([head, body_out])
                    if env_key(new_head) == env_key(head):
                        break
                    if rnd >= SYM_ROUNDS - 1:
                        new_head = self.widen(head, new_head, st)
                    head = new_head
            finally:
                self.weak -= 1
                if may_zero:
                    self.cond -= 1
            finals = list(exits)
            if body_out is not None:
                finals.append(body_out)
            if may_zero or not finals:
                finals.append(head if may_zero else env)
            if finals:
                results.append(Outcome('next', self.join_envs(finals)))
        # dedupe ret outcomes with the same value
        nxt = [o.env for o in results if o.kind == 'next']
        rest = [o for o in results if o.kind != 'next']
        if len(nxt) > 1:
            rest.append(Outcome('next', self.join_envs(nxt)))
        else:
            rest.extend(Outcome('next', e) for e in nxt)
        return rest

    def widen(self, old, new, st):
        out = dict(new)
        for n, v in new.items():
            if n.startswith('$'):
                continue
            o = old.get(n)
            if o is None or o.key() == v.key():
                continue
            out[n] = self.widen_val(o, v, (getattr(st, 'lineno', 0), n))
        return out

    def widen_val(self, o, v, tag):
        if o.k != v.k:
            return TOP('widen')
        if v.k == 'arr':
            if o.dims is None or v.dims is None or len(o.dims) != len(v.dims):
                return v.copy(dims=None, orth=None, lg=None)
            dims = []
            for i, (a, b) in enumerate(zip(o.dims, v.dims)):
                if a is not None and b is not None and same(a, b):
                    dims.append(a)
                else:
                    dims.append(Poly.sym(('w', self.where(), tag, i)))
            return v.copy(dims=tuple(dims), orth=None, lg=None)
        if v.k == 'int':
            return INT(Poly.sym(('w', self.where(), tag)))
        if v.k == 'float':
            return FLOAT(taint=v.taint | o.taint)
        if v.k in ('list', 'tuple') and v.items is not None:
            return LIST(elem=join_all(v.items) if v.items else None,
                        label=v.label) if v.k == 'list' else TOP('widen')
        return v

    def try_decision(self, st, env):
        """Decide simple try/except idioms: -> 'body' | 'handler' | None."""
        if len(st.handlers) != 1 or st.finalbody:
            return None
        body = [x for x in st.body
                if not (isinstance(x, ast.Assign) and
                        isinstance(x.value, ast.Constant))]
        if len(body) != 1:
            return None
        h = st.handlers[0]
        hname = self.prog.dotted(h.type) if h.type is not None else None
        b = body[0]
        if hname == 'KeyError' and isinstance(b, ast.Assign) and \
                isinstance(b.value, ast.Subscript):
            d = self.eval(b.value.value, env)
            k = self.eval_index(b.value.slice, env)
            if d.k == 'dict' and k.has_const():
                if k.c in (d.keys or {}):
                    return 'body'
                if d.elem is None and d.label is None:
                    return 'handler'
            # memoisation:  try: t = D[key]  except KeyError: t = <expr>;
            # D[key] = t   -- a hit returns what an earlier miss stored for the
            # same key, i.e. the value of <expr>: the handler decides the value
            if isinstance(b.targets[0], ast.Name) and h.body:
                last = h.body[-1]
                tname = b.targets[0].id
                if isinstance(last, ast.Assign) and \
                        isinstance(last.targets[0], ast.Subscript) and \
                        ast.dump(last.targets[0].value) == \
                        ast.dump(b.value.value) and \
                        ast.dump(last.targets[0].slice) == \
                        ast.dump(b.value.slice) and \
                        isinstance(last.value, ast.Name) and \
                        last.value.id == tname and \
                        any(isinstance(x, ast.Assign) and
                            isinstance(x.targets[0], ast.Name) and
                            x.targets[0].id == tname for x in h.body[:-1]):
                    return 'handler'
            return None
        if hname == 'TypeError' and isinstance(b, ast.Assert):
            for c in ast.walk(b.test):
                if isinstance(c, ast.Call) and isinstance(c.func, ast.Name) \
                        and c.func.id == 'len' and len(c.args) == 1:
                    x = self.eval(c.args[0], env)
                    if x.k in ('list', 'tuple', 'arr', 'dict', 'str'):
                        return 'body'
                    if x.k in ('func', 'int', 'float', 'none', 'bool'):
                        return 'handler'
            return None
        if hname == 'AttributeError' and isinstance(b, ast.Return) and \
                isinstance(b.value, ast.Attribute):
            o = self.eval(b.value.value, env)
            if o.k == 'obj':
                return 'body' if b.value.attr in (o.attrs or {}) else 'handler'
            return None
        if hname == 'ValueError' and isinstance(b, ast.Assign) and \
                isinstance(b.targets[0], ast.Tuple):
            v = self.eval(b.value, env)
            n = len(b.targets[0].elts)
            if v.k in ('tuple', 'list') and v.items is not None:
                return 'body' if len(v.items) == n else 'handler'
            if v.k == 'str' and v.has_const():
                return 'body' if len(v.c) == n else 'handler'
            return None
        return None

    def st_Try(self, st, env):
        dec = self.try_decision(st, env)
        if dec == 'body':
            outs = self.exec_block(st.body, env)
            res = []
            for o in outs:
                if o.kind == 'next' and st.orelse:
                    res.extend(self.exec_block(st.orelse, o.env))
                else:
                    res.append(o)
            return res
        if dec == 'handler':
            h = st.handlers[0]
            if h.name:
                env[h.name] = TOP()
            return self.exec_block(h.body, env)
        base = dict(env)
        outs = self.exec_block(st.body, env)
        results = []
        nxt = [o.env for o in outs if o.kind == 'next']
        raised = [o for o in outs if o.kind == 'raise']
        results.extend(o for o in outs if o.kind not in ('next', 'raise'))
        # handlers: analysed from the pre-try state joined with body state
        if st.handlers:
            self.cond += 1
            self.weak += 1
            try:
                for h in st.handlers:
                    hv = dict(base if not nxt else self.join_envs([base] + nxt))
                    if h.name:
                        hv[h.name] = TOP()
                    houts = self.exec_block(h.body, hv)
                    for o in houts:
                        if o.kind == 'next':
                            nxt.append(o.env)
                        else:
                            results.append(o)
            finally:
                self.cond -= 1
                self.weak -= 1
        else:
            results.extend(raised)
        if st.orelse and nxt:
            e = self.join_envs(nxt) if len(nxt) > 1 else nxt[0]
            outs2 = self.exec_block(st.orelse, e)
            nxt = [o.env for o in outs2 if o.kind == 'next']
            results.extend(o for o in outs2 if o.kind != 'next')
        if nxt:
            e = self.join_envs(nxt) if len(nxt) > 1 else nxt[0]
            if st.finalbody:
                results.extend(self.exec_block(st.finalbody, e))
            else:
                results.append(Outcome('next', e))
        return results

    def st_With(self, st, env):
        for item in st.items:
            v = self.eval(item.context_expr, env)
            if item.optional_vars is not None:
                self.assign(item.optional_vars, TOP(), env, st)
        return self.exec_block(st.body, env)

    # ------------------------------------------------------------------
    # assignment
    def assign(self, target, v, env, st):
        if isinstance(target, ast.Name):
            env[target.id] = v
        elif isinstance(target, (ast.Tuple, ast.List)):
            n = len(target.elts)
            parts = self.unpack(v, n, target)
            for t, p in zip(target.elts, parts):
                if isinstance(t, ast.Starred):
                    self.assign(t.value, TOP(), env, st)
                else:
                    self.assign(t, p, env, st)
        elif isinstance(target, ast.Subscript):
            self.store_subscript(target, v, env, st)
        elif isinstance(target, ast.Attribute):
            base = self.eval(target.value, env)
            if base.k == 'obj':
                v = tag_owned(v, target.attr)
                if self.weak > 0 and target.attr in base.attrs:
                    base.attrs[target.attr] = join(base.attrs[target.attr], v)
                else:
                    base.attrs[target.attr] = v
                self.effect('attr-write', base, st)
        elif isinstance(target, ast.Starred):
            self.assign(target.value, TOP(), env, st)

    def unpack(self, v, n, node):
        if v.k in ('tuple', 'list') and v.items is not None:
            if len(v.items) == n:
                return list(v.items)
            self.site('S-unpack', node, 'violation',
                      'cannot unpack %d values into %d targets'
                      % (len(v.items), n))
            return [TOP()] * n
        if v.k in ('tuple', 'list') and v.elem is not None:
            return [v.elem] * n
        if v.k == 'arr' and v.items is not None:
            if len(v.items) == n:
                return list(v.items)
            self.site('S-unpack', node, 'violation',
                      'cannot unpack %d values into %d targets'
                      % (len(v.items), n))
            return [TOP()] * n
        if v.k == 'arr' and v.dims is not None and len(v.dims) >= 1:
            d0 = v.dims[0]
            if d0 is not None and d0.as_int() is not None and d0.as_int() != n:
                self.site('S-unpack', node, 'violation',
                          'cannot unpack first axis %r into %d targets'
                          % (d0, n))
            sub = v.copy(dims=v.dims[1:]) if len(v.dims) > 1 else \
                self.scalar_of(v)
            return [sub] * n
        if v.k == 'iter':
            if v.items is not None and len(v.items) == n:
                return list(v.items)
        t = TOP()
        t.org = v.org
        return [t] * n

    def scalar_of(self, arr):
        if arr.dt in ('i',):
            return INT()
        if arr.dt == 'b':
            return BOOL()
        r = FLOAT(taint=arr.taint, lg=arr.lg, unit=arr.unit,
                  deg=arr.deg if arr.deg is not None else {},
                  cnt=arr.cnt, nonneg=bool(arr.nonneg))
        if isinstance(arr.src, tuple) and arr.src and arr.src[0] == 'cumsum':
            r.src = arr.src
        return r

    # ------------------------------------------------------------------
    # subscripts
    def store_subscript(self, target, v, env, st, same_object=False):
        base = self.eval(target.value, env)
        idx = self.eval_index(target.slice, env)
        if base.k == 'list':
            self.effect('list-write', base, st)
            if base.items is not None and idx.k == 'int' and idx.has_const():
                i = idx.c
                if -len(base.items) <= i < len(base.items):
                    if self.weak > 0 and not same_object:
                        base.items[i] = join(base.items[i], v)
                    else:
                        base.items[i] = v
                else:
                    self.site('S-index', target, 'violation',
                              'list index %d out of range (len %d)'
                              % (i, len(base.items)))
            elif base.items is not None and idx.k == 'slice':
                lo_, hi_, st_ = idx.items
                n_ = len(base.items)

                def _c(x, dflt):
                    if x is None or x.k == 'none':
                        return dflt
                    return x.c if x.k == 'int' and x.has_const() else None
                lo_c, hi_c = _c(lo_, 0), _c(hi_, n_)
                if (st_ is None or st_.k == 'none') and lo_c is not None \
                        and hi_c is not None and \
                        v.k in ('list', 'tuple') and v.items is not None:
                    lo_c = max(lo_c + n_, 0) if lo_c < 0 else min(lo_c, n_)
                    hi_c = max(hi_c + n_, 0) if hi_c < 0 else min(hi_c, n_)
                    hi_c = max(hi_c, lo_c)
                    new_items = list(base.items[:lo_c]) + list(v.items) + \
                        list(base.items[hi_c:])
                    if self.weak > 0:
                        if len(new_items) == n_:
                            base.items = [join(a, b) for a, b in
                                          zip(base.items, new_items)]
                        else:
                            base.items = None
                            base.elem = TOP()
                    else:
                        base.items = new_items
                else:
                    base.items = None
                    base.elem = v.elem if v.k in ('list', 'tuple') and \
                        v.elem else TOP()
            elif base.items is not None:
                base.items = [join(x, v) for x in base.items]
            else:
                base.elem = join(base.elem, v) if base.elem is not None else v
            return
        if base.k == 'dict':
            self.effect('dict-write', base, st)
            dk = dict_key(idx)
            if dk is not None:
                if self.weak > 0 and dk in base.keys:
                    base.keys[dk] = join(base.keys[dk], v)
                else:
                    base.keys[dk] = v
            else:
                base.elem = join(base.elem, v) if base.elem is not None else v
            return
        if base.k == 'arr':
            self.effect('array-write', base, st)
            region = self.np.index(base, idx, target, load=False)
            self.np.check_store(base, region, v, target, st)
            # facets of the holder change
            if isinstance(target.value, ast.Name):
                keep_orth = base.orth if (base.orth == 'eig' and
                                          v.has_const() and v.c == 0) else None
                zero = v.has_const() and isinstance(v.c, (int, float)) and \
                    v.c == 0
                nb = base.copy(orth=keep_orth, taint=base.taint | v.taint,
                               lg=base.lg if (zero or (v.lg is not None and
                                                        v.lg == base.lg))
                               else None, nonneg=False, normed=False,
                               delta=None,
                               src=None if base.src == 'ones' else base.src,
                               note=None if base.note == 'input' else
                               base.note)
                # clamp at zero:  x[x < 0] = 0  (either spelling of the mask)
                sl_ = target.slice
                if isinstance(sl_, ast.Compare) and len(sl_.ops) == 1 and \
                        v.has_const() and v.c == 0:
                    l_, r_, op_ = sl_.left, sl_.comparators[0], sl_.ops[0]
                    nm = target.value.id

                    def _z(x):
                        return isinstance(x, ast.Constant) and x.value == 0
                    if (isinstance(l_, ast.Name) and l_.id == nm and _z(r_)
                            and isinstance(op_, (ast.Lt, ast.LtE))) or \
                            (isinstance(r_, ast.Name) and r_.id == nm and
                             _z(l_) and isinstance(op_, (ast.Gt, ast.GtE))):
                        nb.nonneg = True
                if base.note == 'zeros' and v.deg is not None and \
                        (base.deg in (None, {}) or base.deg == v.deg):
                    nb.deg = v.deg
                elif base.deg is not None and v.deg is not None and \
                        base.deg == v.deg:
                    nb.deg = v.deg
                else:
                    nb.deg = None if (v.deg or base.deg) else base.deg
                nb.deg_alt = None
                if base.note == 'zeros' and v.deg is None and v.deg_alt and \
                        base.deg in (None, {}):
                    nb.deg_alt = list(v.deg_alt)
                if base.items is not None:
                    its = None
                    if idx.k == 'int' and idx.has_const() and v.k == 'int' \
                            and -len(base.items) <= idx.c < len(base.items) \
                            and self.weak == 0:
                        its = list(base.items)
                        its[idx.c] = v
                    elif idx.k in ('list', 'tuple') and idx.items is not None \
                            and all(x.k == 'int' and x.has_const() and
                                    -len(base.items) <= x.c < len(base.items)
                                    for x in idx.items) and v.k == 'arr' and \
                            v.items is not None and \
                            len(v.items) == len(idx.items) and self.weak == 0:
                        its = list(base.items)
                        for x, y in zip(idx.items, v.items):
                            its[x.c] = y
                    nb.items = its
                if base.uninit:
                    nb.uninit = base.uninit
                # zeros(...)[x > 0] = 1 / x[x > 0]: the guarded reciprocals of
                # the singular values (zero where the value is zero)
                if base.note == 'zeros' and v.k == 'arr' and \
                        v.orth == 'invsing' and idx.k == 'arr' and \
                        idx.dt == 'b' and isinstance(idx.rel, tuple) and \
                        idx.rel[0] == 'nzmask' and base.dims is not None and \
                        len(base.dims) == 1:
                    nb.orth = 'invsing'
                    nb.src = v.src
                    nb.taint = base.taint
                self.rebind_array(env, target.value.id, base, nb)
            elif isinstance(target.value, ast.Attribute) and \
                    base.items is not None:
                # obj.vec[k] = v  on a short integer vector kept exactly
                obj = self.eval(target.value.value, env)
                its = None
                if idx.k == 'int' and idx.has_const() and v.k == 'int' and \
                        -len(base.items) <= idx.c < len(base.items):
                    its = list(base.items)
                    its[idx.c] = v if self.weak == 0 else \
                        join(its[idx.c], v)
                nb = base.copy(items=its, note=None, nonneg=False)
                if obj.k == 'obj' and obj.attrs is not None and \
                        obj.attrs.get(target.value.attr) is base:
                    obj.attrs[target.value.attr] = nb
                else:
                    base.items = its
            else:
                self._store_into_element(target.value, base, v, env, st)
            return
        if base.k == 'top' and base.org:
            self.effect('array-write', base, st)

    def eval_index(self, node, env):
        if isinstance(node, ast.Tuple):
            return TUPLE([self.eval_index(e, env) for e in node.elts])
        if isinstance(node, ast.Slice):
            lo = self.eval(node.lower, env) if node.lower is not None else None
            hi = self.eval(node.upper, env) if node.upper is not None else None
            stp = self.eval(node.step, env) if node.step is not None else None
            return AV('slice', items=[lo, hi, stp])
        return self.eval(node, env)

    # ------------------------------------------------------------------
    # iteration model
    def iter_model(self, it, node):
        """-> (items | None, elem | None, count Poly | None)"""
        if it.k in ('list', 'tuple', 'iter'):
            if it.items is not None:
                return list(it.items), None, Poly.const(len(it.items))
            return None, it.elem if it.elem is not None else TOP(), it.p
        if it.k == 'arr':
            if it.items is not None:
                return list(it.items), None, Poly.const(len(it.items))
            if it.dims is None or len(it.dims) == 0:
                return None, TOP(), None
            d0 = it.dims[0]
            rest = it.dims[1:]
            if len(rest) == 0:
                el = self.scalar_of(it)
                if it.idx is not None and el.k == 'int':
                    el = el.copy(idx=it.idx)
            else:
                el = it.copy(dims=rest, orth=None)
            n = d0.as_int() if d0 is not None else None
            if n is not None and n <= 8:
                return [el] * n, None, d0
            return None, el, d0
        if it.k == 'dict':
            if it.keys is not None and it.elem is None:
                return [from_const(k) for k in it.keys], None, \
                    Poly.const(len(it.keys))
            return None, TOP(), None
        if it.k == 'str' and it.has_const():
            return [STR(ch) for ch in it.c], None, Poly.const(len(it.c))
        return None, TOP(), None

    # ------------------------------------------------------------------
    # truth / refinement
    def truth_site(self, v, node):
        """K-truth: the truth value of an array with more than one element
        is an error at run time (``if not a[1:]:`` for an ndarray a)."""
        if v is None or v.k != 'arr' or v.dims is None or not v.dims:
            return
        n = 1
        for d_ in v.dims:
            c = d_.as_int() if d_ is not None else None
            if c is None:
                return
            n *= c
        if n > 1:
            self.site('K-truth', node, 'violation',
                      'truth value of an array with %d elements (shape %s): '
                      'ValueError at run time when the operand is an '
                      'ndarray' % (n, [d_.as_int() for d_ in v.dims]))

    def truth(self, v):
        if v is None:
            return None
        k = v.k
        if k == 'none':
            return False
        if k in ('bool', 'int', 'float', 'str'):
            if v.has_const():
                return bool(v.c)
            if k == 'int' and v.p is not None:
                lb = lower_bound(v.p, self.opts.get('lower_bounds'))
                if lb is not None and lb >= 1:
                    return True
            return None
        if k in ('list', 'tuple', 'iter', 'set'):
            if v.maybe_none:
                return None
            if v.items is not None:
                return len(v.items) > 0
            return None
        if k == 'dict':
            if v.maybe_none:
                return None
            if v.elem is None and v.keys is not None:
                return len(v.keys) > 0 if v.label is None or v.keys else None
            return None
        if k in ('func', 'ext', 'obj', 'gen'):
            if v.maybe_none:
                return None
            return True
        return None

    def refine(self, test, env, pol):
        if isinstance(test, ast.UnaryOp) and isinstance(test.op, ast.Not):
            return self.refine(test.operand, env, not pol)
        if isinstance(test, ast.BoolOp):
            if isinstance(test.op, ast.And) and pol:
                for v in test.values:
                    self.refine(v, env, True)
            if isinstance(test.op, ast.Or) and not pol:
                for v in test.values:
                    self.refine(v, env, False)
            return
        if isinstance(test, ast.Compare) and len(test.ops) == 1 and \
                isinstance(test.left, ast.Name):
            op = test.ops[0]
            rhs = test.comparators[0]
            name = test.left.id
            if isinstance(rhs, ast.Constant) and rhs.value is None and \
                    name in env:
                is_none = isinstance(op, ast.Is) == pol if \
                    isinstance(op, (ast.Is, ast.IsNot)) else None
                if is_none is True:
                    env[name] = NONE()
                elif is_none is False and env[name].maybe_none:
                    env[name] = env[name].copy(maybe_none=False)
        if isinstance(test, ast.Name) and test.id in env:
            v = env[test.id]
            if pol and v.maybe_none:
                env[test.id] = v.copy(maybe_none=False)

    # ------------------------------------------------------------------
    # expressions
    def eval(self, node, env):
        if node is None:
            return NONE()
        m = getattr(self, 'ex_' + type(node).__name__, None)
        if m is None:
            return TOP('expr:' + type(node).__name__)
        return m(node, env)

    def ex_Constant(self, node, env):
        return from_const(node.value)

    def ex_Name(self, node, env):
        return self.lookup(node.id, env, node)

    def lookup(self, name, env, node=None):
        if name in env:
            return env[name]
        # enclosing closures
        fr = self.stack[-1] if self.stack else None
        cl = fr.closure if fr else None
        while cl is not None:
            if name in cl:
                return cl[name]
            cl = cl.get('$closure')
        mod = self.mod()
        if mod is not None:
            if name in mod.functions:
                return AV('func', fn=mod.functions[name])
            if name in mod.classes:
                return AV('class', cls=mod.classes[name])
            if name in mod.imports:
                tgt = mod.imports[name]
                if tgt == 'teneva':
                    return AV('pkg')
                if tgt.startswith('teneva.'):
                    r = self.prog.resolve_dotted(mod, name)
                    if r and r[0] == 'teneva':
                        o = r[1]
                        if isinstance(o, model.ClassInfo):
                            return AV('class', cls=o)
                        return AV('func', fn=o)
                    return TOP()
                return EXT(tgt)
            if name in mod.globals:
                g = mod.globals[name]
                if isinstance(g, ast.Constant):
                    return from_const(g.value)
                # a module-level tuple / list of names and literals (e.g. the
                # type tuple of an isinstance test): evaluated in place
                if isinstance(g, (ast.Tuple, ast.List)) and all(
                        isinstance(x, (ast.Name, ast.Attribute, ast.Constant))
                        for x in g.elts) and len(g.elts) <= 16:
                    try:
                        return self.eval(g, {})
                    except Exception:
                        return TOP('global')
                return TOP('global')
        if name in BUILTINS:
            return AV('builtin', ext=name)
        return TOP('name:' + name)

    def ex_Attribute(self, node, env):
        base = self.eval(node.value, env)
        return self.getattr(base, node.attr, node, env)

    def getattr(self, base, attr, node, env):
        k = base.k
        if k == 'pkg':
            ex = self.prog.exports.get(attr)
            if ex is None:
                self.site('X-name', node, 'violation',
                          'teneva.%s is not exported by the package' % attr)
                return TOP()
            if ex[0] == 'class':
                return AV('class', cls=ex[1])
            return AV('func', fn=ex[1])
        if k == 'ext':
            return self.np.ext_attr(base, attr, node)
        if k == 'obj':
            if attr in base.attrs:
                return base.attrs[attr]
            ci = base.cls
            if ci is not None and attr in ci.methods:
                fn = ci.methods[attr]
                if fn.is_property:
                    return self.call_teneva(fn, [], {}, node, self_=base)
                return AV('func', fn=fn, self_=base)
            return TOP('attr:' + attr)
        if k == 'arr' or (k == 'top' and attr in ('shape', 'T', 'ndim',
                                                  'size', 'real', 'dtype')):
            return self.np.arr_attr(base, attr, node)
        if k in ('list', 'dict', 'gen', 'str', 'tuple', 'float', 'int', 'top',
                 'iter'):
            return AV('bmeth', self_=base, ext=attr)
        return TOP('attr:' + attr)

    def ex_Tuple(self, node, env):
        items = []
        for e in node.elts:
            if isinstance(e, ast.Starred):
                v = self.eval(e.value, env)
                if v.k in ('tuple', 'list') and v.items is not None:
                    items.extend(v.items)
                else:
                    return TUPLE([]).copy(items=None, elem=TOP())
            else:
                items.append(self.eval(e, env))
        return TUPLE(items)

    def ex_List(self, node, env):
        items = []
        for e in node.elts:
            if isinstance(e, ast.Starred):
                v = self.eval(e.value, env)
                if v.k in ('tuple', 'list') and v.items is not None:
                    items.extend(v.items)
                else:
                    return LIST(elem=TOP())
            else:
                items.append(self.eval(e, env))
        return LIST(items)

    def ex_Set(self, node, env):
        return self.make_set([self.eval(e, env) for e in node.elts])

    def make_set(self, vals):
        """A set of distinct constants is kept exactly (its length and
        truth value are decided); anything else is an opaque set."""
        s = AV('set')
        if vals is None:
            return s
        out = []
        for v in vals:
            if not (isinstance(v, AV) and v.k in ('int', 'str', 'bool',
                                                  'float') and v.has_const()):
                return s
            if not any(o.c == v.c for o in out):
                out.append(v)
        s.items = out
        return s

    def ex_Dict(self, node, env):
        keys = {}
        d = DICT()
        for k, v in zip(node.keys, node.values):
            vv = self.eval(v, env)
            if k is None:
                continue
            kv = self.eval(k, env)
            if kv.has_const() and kv.k in ('str', 'int'):
                keys[kv.c] = vv
            else:
                d.elem = vv if d.elem is None else join(d.elem, vv)
        d.keys = keys
        return d

    def ex_JoinedStr(self, node, env):
        for v in node.values:
            if isinstance(v, ast.FormattedValue):
                self.eval(v.value, env)
        return STR()

    def ex_FormattedValue(self, node, env):
        self.eval(node.value, env)
        return STR()

    def ex_Lambda(self, node, env):
        fn = model.Function(self.mod(), node, self.where() + '.<lambda>',
                            parent=self.stack[-1].fn if self.stack else None)
        return AV('func', fn=fn, env=env)

    def ex_IfExp(self, node, env):
        c = self.eval(node.test, env)
        self.truth_site(c, node.test)
        t = self.truth(c)
        if t is None:
            t = self.assumed(node.test, env)
            if t is not None:
                e = dict(env)
                self.add_fact(e, node.test, t)
                return self.eval(node.body if t else node.orelse, e)
        if t is True:
            return self.eval(node.body, env)
        if t is False:
            return self.eval(node.orelse, env)
        e1 = dict(env)
        e2 = dict(env)
        self.refine(node.test, e1, True)
        self.refine(node.test, e2, False)
        self.add_fact(e1, node.test, True)
        self.add_fact(e2, node.test, False)
        self.cond += 1
        self.weak += 1
        try:
            a = self.eval(node.body, e1)
            b = self.eval(node.orelse, e2)
        finally:
            self.cond -= 1
            self.weak -= 1
        cj = self.cond_join(node.test, env, a, b)
        if cj is not None:
            return cj
        return self.np.join_ifexp(a, b, node)

    def cond_join(self, test, env, vt, vf):
        """Exact value of ``vt if test else vf`` for integer polynomials when
        the test relates them:

        * ``x if x >= y else y`` (any orientation / strictness)  ->  max / min;
        * ``c if P == c' else f(P)`` with f(c') == c  ->  f(P)  (the special
          case is the general formula at that point).
        Returns None when neither applies."""
        pol = True
        while isinstance(test, ast.UnaryOp) and isinstance(test.op, ast.Not):
            test, pol = test.operand, not pol
        if not (isinstance(test, ast.Compare) and len(test.ops) == 1):
            return None
        # the ordering facts of the arm that ran last are not facts here
        from . import poly as _poly
        _poly.ORDER_FACTS[:] = list(env.get('$order', ()))
        if not pol:
            vt, vf = vf, vt
        if vt.k not in ('int', 'bool') or vf.k not in ('int', 'bool') or \
                vt.p is None or vf.p is None:
            return None
        a = self.eval(test.left, env)
        b = self.eval(test.comparators[0], env)
        if a.k not in ('int', 'bool') or b.k not in ('int', 'bool') or \
                a.p is None or b.p is None:
            return None
        op = type(test.ops[0])
        from .poly import pmin, pmax, psubst, leaf_atoms
        if op in (ast.Gt, ast.GtE, ast.Lt, ast.LtE):
            big_first = op in (ast.Gt, ast.GtE)
            if vt.p == a.p and vf.p == b.p:
                # a if a > b else b
                return INT(pmax(a.p, b.p) if big_first else pmin(a.p, b.p))
            if vt.p == b.p and vf.p == a.p:
                # b if a > b else a
                return INT(pmin(a.p, b.p) if big_first else pmax(a.p, b.p))
            return None
        if op in (ast.Eq, ast.NotEq):
            v_eq, v_ne = (vt, vf) if op is ast.Eq else (vf, vt)
            # a == b holds in the v_eq arm: one side must be a single leaf
            for x, y in ((a.p, b.p), (b.p, a.p)):
                ats = x.atoms()
                if len(x.t) == 1 and len(ats) == 1 and x == type(x).sym(
                        next(iter(ats))):
                    at = next(iter(ats))
                    if at in leaf_atoms(v_ne.p) and \
                            psubst(v_ne.p, at, y) == v_eq.p:
                        return INT(v_ne.p)
            return None
        return None

    def ex_BoolOp(self, node, env):
        is_and = isinstance(node.op, ast.And)
        vals = []
        e = env
        for i_, v in enumerate(node.values):
            x = self.eval(v, e)
            if i_ < len(node.values) - 1:
                self.truth_site(x, v)
            t = self.truth(x)
            if is_and and t is False:
                return x if x.k != 'top' else BOOL(False)
            if (not is_and) and t is True:
                return x
            vals.append((x, t))
            if is_and:
                e = dict(e)
                self.refine(v, e, True)
            else:
                e = dict(e)
                self.refine(v, e, False)
        und = [x for x, t in vals if t is None]
        if not und:
            return vals[-1][0]
        if len(und) == 1 and all(t is not None for x, t in vals[:-1]) and \
                vals[-1][1] is None:
            return vals[-1][0]
        if all(x.k == 'bool' or x.k == 'top' for x in und):
            return BOOL()
        r = und[0]
        for x in und[1:]:
            r = join(r, x)
        if vals[-1][1] is not None and vals[-1][0] not in und:
            r = join(r, vals[-1][0])
        return r

    def ex_UnaryOp(self, node, env):
        v = self.eval(node.operand, env)
        if isinstance(node.op, ast.Not):
            self.truth_site(v, node.operand)
            t = self.truth(v)
            return BOOL(not t) if t is not None else BOOL()
        return self.np.unop(node.op, v, node)

    def ex_BinOp(self, node, env):
        a = self.eval(node.left, env)
        b = self.eval(node.right, env)
        return self.np.binop(node.op, a, b, node, env=env)

    def ex_Compare(self, node, env):
        left = self.eval(node.left, env)
        result = None
        for op, rn in zip(node.ops, node.comparators):
            right = self.eval(rn, env)
            r = self.np.compare(op, left, right, node)
            if result is None:
                result = r
            else:
                ta, tb = self.truth(result), self.truth(r)
                if ta is False or tb is False:
                    result = BOOL(False)
                elif ta is True and tb is True:
                    result = BOOL(True)
                else:
                    result = BOOL() if r.k != 'arr' else r
            left = right
        return result

    def ex_Subscript(self, node, env):
        base = self.eval(node.value, env)
        idx = self.eval_index(node.slice, env)
        return self.subscript(base, idx, node)

    def subscript(self, base, idx, node):
        k = base.k
        if k == 'ext' and base.ext in ('numpy.r_',):
            # np.r_[a, b, ...]: 1-D concatenation of scalars and vectors
            parts = idx.items if idx.k == 'tuple' and idx.items is not None \
                else [idx]
            tot = Poly.const(0)
            taint = frozenset()
            for p_ in parts:
                if p_.k in ('int', 'float', 'bool'):
                    tot = tot + 1 if tot is not None else None
                elif p_.k == 'arr' and p_.dims is not None and \
                        len(p_.dims) == 1 and p_.dims[0] is not None:
                    tot = tot + p_.dims[0] if tot is not None else None
                elif p_.k == 'arr' and p_.dims is not None and \
                        len(p_.dims) == 0:
                    tot = tot + 1 if tot is not None else None
                else:
                    tot = None
                taint = taint | p_.taint
            return ARR((tot,), 'f', taint=taint)
        if k in ('list', 'tuple', 'iter'):
            if idx.k == 'int':
                if base.items is not None:
                    if idx.has_const():
                        i = idx.c
                        if -len(base.items) <= i < len(base.items):
                            return base.items[i]
                        self.site('S-index', node, 'violation',
                                  'index %d out of range (len %d)'
                                  % (i, len(base.items)))
                        return TOP()
                    if base.items:
                        return join_all(base.items)
                    return TOP()
                return base.elem if base.elem is not None else TOP()
            if idx.k == 'slice':
                lo, hi, stp = idx.items
                if base.items is not None:
                    ok = all(x is None or x.k == 'none' or
                             (x.k == 'int' and x.has_const())
                             for x in (lo, hi, stp))
                    if ok:
                        sl = slice(*(None if (x is None or x.k == 'none')
                                     else x.c for x in (lo, hi, stp)))
                        r = AV(base.k if base.k != 'iter' else 'list',
                               items=list(base.items[sl]))
                        return r
                    return LIST(elem=join_all(base.items) if base.items
                                else TOP())
                return LIST(elem=base.elem)
            if idx.k == 'arr' or idx.k == 'top':
                if base.items:
                    return join_all(base.items)
                return base.elem if base.elem is not None else TOP()
            return TOP()
        if k == 'dict':
            dk = dict_key(idx)
            if dk is not None:
                if dk in base.keys:
                    return base.keys[dk]
                if isinstance(dk, SymKey) and base.keys:
                    # a symbolic key may coincide with any stored key
                    vals = list(base.keys.values())
                    if base.elem is not None:
                        vals.append(base.elem)
                    return join_all(vals)
                if base.elem is not None:
                    return base.elem
                return TOP('dict-key')
            vals = list(base.keys.values())
            if base.elem is not None:
                vals.append(base.elem)
            return join_all(vals) if vals else TOP()
        if k == 'arr':
            return self.np.index(base, idx, node, load=True)
        if k == 'top':
            t = TOP()
            t.org = base.org
            return t
        return TOP()

    def ex_Starred(self, node, env):
        return self.eval(node.value, env)

    def ex_ListComp(self, node, env):
        return self.comprehension(node, env, 'list')

    def ex_GeneratorExp(self, node, env):
        return self.comprehension(node, env, 'list')

    def ex_SetComp(self, node, env):
        r = self.comprehension(node, env, 'list')
        if isinstance(r, AV) and r.k == 'list' and r.items is not None:
            return self.make_set(r.items)
        return AV('set')

    def ex_DictComp(self, node, env):
        return DICT(elem=TOP())

    def comprehension(self, node, env, kind):
        gens = node.generators
        results = []
        symbolic = [False]

        def rec(gi, e):
            if gi == len(gens):
                results.append(self.eval(node.elt, e))
                return
            g = gens[gi]
            it = self.eval(g.iter, e)
            items, elem, count = self.iter_model(it, g.iter)
            if items is not None and len(items) <= UNROLL_CAP:
                for item in items:
                    e2 = dict(e)
                    e2['$closure'] = e.get('$closure')
                    self.assign(g.target, item, e2, node)
                    ok = True
                    for cnd in g.ifs:
                        t = self.truth(self.eval(cnd, e2))
                        if t is False:
                            ok = False
                            break
                        if t is None:
                            symbolic[0] = True
                    if ok:
                        rec(gi + 1, e2)
            else:
                symbolic[0] = True
                e2 = dict(e)
                self.assign(g.target, elem if elem is not None else TOP(), e2,
                            node)
                for cnd in g.ifs:
                    self.eval(cnd, e2)
                    symbolic.append(('cond', count))
                symbolic.append(('count', count))
                rec(gi + 1, e2)

        rec(0, dict(env))
        if not symbolic[0]:
            return LIST(results)
        el = join_all(results) if results else TOP()
        cnt = None
        counts = [c for c in symbolic[1:] if c[0] == 'count']
        conds = [c for c in symbolic[1:] if c[0] == 'cond']
        if len(counts) == 1 and not conds and counts[0][1] is not None \
                and len(gens) == 1:
            cnt = counts[0][1]
        return LIST(elem=el, length=cnt)

    def ex_Call(self, node, env):
        fv = self.eval(node.func, env)
        pos = []
        for a in node.args:
            if isinstance(a, ast.Starred):
                v = self.eval(a.value, env)
                if v.k in ('tuple', 'list', 'iter') and v.items is not None:
                    pos.extend(v.items)
                elif v.k == 'arr' and v.dims and v.dims[0] is not None and \
                        v.dims[0].as_int() is not None:
                    sub = v.copy(dims=v.dims[1:]) if len(v.dims) > 1 else \
                        self.scalar_of(v)
                    pos.extend([sub] * v.dims[0].as_int())
                else:
                    pos.append(AV('starred', elem=v))
            else:
                pos.append(self.eval(a, env))
        kw = {}
        for k in node.keywords:
            v = self.eval(k.value, env)
            if k.arg is None:
                if v.k == 'dict' and v.keys:
                    for kk, vv in v.keys.items():
                        kw[kk] = vv
                continue
            kw[k.arg] = v
        return self.call(fv, pos, kw, node, env)

    def call(self, fv, pos, kw, node, env):
        k = fv.k
        if k == 'func':
            fn = fv.fn
            if isinstance(fn.node, ast.Lambda):
                return self.call_lambda(fv, pos, kw, node)
            closure = fv.env
            cur_fn = self.stack[-1].fn if self.stack else None
            by_definer = fn.parent is not None and cur_fn is fn.parent and \
                env is not None
            if by_definer:
                # a closure called by the function that defines it reads the
                # CURRENT values of the enclosing variables (late binding)
                closure = env
            self._nonlocal_out = None
            res = self.call_teneva(fn, pos, kw, node, self_=fv.self_,
                                   closure=closure)
            out_ = self._nonlocal_out
            self._nonlocal_out = None
            if out_ and by_definer:
                # ``nonlocal x`` in the closure: its assignments are
                # assignments to the definer's variable
                for n_, v_ in out_.items():
                    env[n_] = v_
            return res
        if k == 'class':
            return self.instantiate(fv.cls, pos, kw, node)
        if k == 'ext':
            mod = self.mod()
            self.ext_calls.append((fv.ext, node, mod, self.where(), len(pos),
                                   tuple(kw)))
            return self.np.call_ext(fv.ext, pos, kw, node, env)
        if k == 'builtin':
            return self.np.call_builtin(fv.ext, pos, kw, node, env)
        if k == 'bmeth':
            return self.np.call_method(fv.self_, fv.ext, pos, kw, node, env)
        if k == 'obj':
            ci = fv.cls
            if ci is not None and '__call__' in ci.methods:
                return self.call_teneva(ci.methods['__call__'], pos, kw, node,
                                        self_=fv)
        # unknown callable (user callback): arguments escape by reference
        self.unresolved.append((self.where(), model.norm_src(self.mod(), node)
                                if self.mod() else ''))
        self.cb_calls.append((self.where(), node, list(pos), dict(kw)))
        r = TOP('call')
        # the object a user callback hands back: label ('CB', line), so that a
        # result which is still that very object (no conversion / copy in
        # between) can be told from a value computed from it
        r.org = frozenset({('CB', getattr(node, 'lineno', 0))})
        return r

    def call_lambda(self, fv, pos, kw, node):
        fn = fv.fn
        if len(self.stack) >= MAX_DEPTH:
            return TOP('depth')
        env = {}
        a = fn.node.args
        names = [x.arg for x in a.posonlyargs + a.args]
        for n, v in zip(names, pos):
            env[n] = v
        for n, v in kw.items():
            env[n] = v
        defaults = fn.defaults()
        frame = Frame(fn, fn.module, closure=fv.env)
        self.stack.append(frame)
        try:
            for n in names:
                if n not in env:
                    if n in defaults:
                        env[n] = self.eval(defaults[n], fv.env or {})
                    else:
                        env[n] = TOP()
            return self.eval(fn.node.body, env)
        finally:
            self.stack.pop()

    # helpers used by npmodel
    def list_extend(self, lst, other):
        if lst.items is not None and other.k in ('list', 'tuple', 'iter') and \
                other.items is not None and self.weak == 0:
            lst.items.extend(other.items)
        else:
            el = []
            if lst.items is not None:
                el.extend(lst.items)
            elif lst.elem is not None:
                el.append(lst.elem)
            if other.k in ('list', 'tuple', 'iter'):
                if other.items is not None:
                    el.extend(other.items)
                elif other.elem is not None:
                    el.append(other.elem)
            else:
                el.append(TOP())
            lst.items = None
            lst.elem = join_all(el) if el else None
            lst.p = None


BUILTINS = {'len', 'range', 'int', 'float', 'abs', 'min', 'max', 'sum', 'list',
            'tuple', 'dict', 'zip', 'enumerate', 'isinstance', 'print',
            'sorted', 'reversed', 'any', 'all', 'str', 'bool', 'round', 'set',
            'map', 'filter', 'type', 'getattr', 'open', 'ValueError',
            'NotImplementedError', 'TypeError', 'KeyError', 'AttributeError',
            'AssertionError', 'Exception', 'divmod', 'pow', 'slice', 'iter',
            'next', 'id', 'hash', 'repr', 'complex', 'hasattr', 'object'}


def _flat_labels(label):
    if isinstance(label, tuple) and label and label[0] == 'J':
        out = set()
        for x in label[1:]:
            if x is not None:
                out |= _flat_labels(x)
        return out
    return {label}


def env_key(env):
    return tuple(sorted((n, v.key()) for n, v in env.items()
                        if not n.startswith('$') and isinstance(v, AV)))


def _magnitude_test(test, name, case):
    """abs(name) <op> positive literal, decided for |name| huge / zero."""
    if not (isinstance(test, ast.Compare) and len(test.ops) == 1):
        return None
    l, r = test.left, test.comparators[0]
    op = type(test.ops[0])

    def is_abs(n):
        return isinstance(n, ast.Call) and len(n.args) == 1 and \
            isinstance(n.args[0], ast.Name) and n.args[0].id == name and \
            (getattr(n.func, 'id', None) == 'abs' or
             getattr(n.func, 'attr', None) in ('abs', 'absolute', 'fabs'))

    def pos_lit(n):
        return isinstance(n, ast.Constant) and \
            isinstance(n.value, (int, float)) and n.value > 0
    if is_abs(l) and pos_lit(r):
        big = {ast.Gt: True, ast.GtE: True, ast.Lt: False, ast.LtE: False}
    elif is_abs(r) and pos_lit(l):
        big = {ast.Gt: False, ast.GtE: False, ast.Lt: True, ast.LtE: True}
    else:
        return None
    if op not in big:
        return None
    return big[op] if case == 'big' else not big[op]


def tag_owned(v, attr, seen=None):
    """Storage kept in an attribute of an object is owned by the object:
    label it ('S', attr) so that later writes through any alias are seen."""
    seen = seen if seen is not None else set()
    if not isinstance(v, AV) or id(v) in seen:
        return v
    seen.add(id(v))
    if v.k == 'arr':
        return v.copy(org=v.org | frozenset([('S', attr)]))
    if v.k in ('list', 'tuple') and v.items is not None:
        v.items = [tag_owned(x, attr, seen) for x in v.items]
        if v.k == 'list' and v.label is None:
            v.label = ('S', attr)
        return v
    if v.k in ('list', 'tuple') and v.elem is not None:
        v.elem = tag_owned(v.elem, attr, seen)
        return v
    return v


def _heap_children(v):
    if v.k in ('list', 'tuple'):
        return list(v.items or []) + ([v.elem] if v.elem is not None else [])
    if v.k == 'dict':
        return list((v.keys or {}).values()) + \
            ([v.elem] if v.elem is not None else [])
    if v.k == 'obj':
        return list((v.attrs or {}).values())
    return []


def fork_env(env):
    """Copy of env in which every mutable heap value (list / dict / object)
    reachable from it is cloned, preserving sharing.  -> (env', pairs) with
    pairs: id(orig) -> (orig, clone)."""
    pairs = {}

    def clone(v):
        if not isinstance(v, AV):
            return v
        if v.k in ('list', 'dict', 'obj') or (v.k == 'tuple' and v.items):
            if id(v) in pairs:
                return pairs[id(v)][1]
            c = v.copy()
            if v.k != 'tuple':
                pairs[id(v)] = (v, c)
            if v.items is not None:
                c.items = [clone(x) for x in v.items]
            if v.elem is not None:
                c.elem = clone(v.elem)
            if v.keys is not None:
                c.keys = {k: clone(x) for k, x in v.keys.items()}
            if v.attrs is not None:
                c.attrs = {k: clone(x) for k, x in v.attrs.items()}
            return c
        if v.k == 'func' and v.self_ is not None:
            c = v.copy()
            c.self_ = clone(v.self_)
            return c
        return v
    out = {}
    for n, v in env.items():
        out[n] = clone(v) if isinstance(v, AV) else v
    return out, pairs


def _map_back(v, rev, seen):
    """Replace clones by their originals inside value v."""
    if not isinstance(v, AV):
        return v
    if id(v) in rev:
        return rev[id(v)]
    if id(v) in seen:
        return v
    if v.k in ('list', 'dict', 'obj', 'tuple'):
        seen.add(id(v))
        if v.items is not None:
            v.items = [_map_back(x, rev, seen) for x in v.items]
        if v.elem is not None:
            v.elem = _map_back(v.elem, rev, seen)
        if v.keys is not None:
            v.keys = {k: _map_back(x, rev, seen) for k, x in v.keys.items()}
        if v.attrs is not None:
            v.attrs = {k: _map_back(x, rev, seen) for k, x in v.attrs.items()}
    return v


def merge_heap(pairs, both):
    """Write the state of the forked heap back into the original objects:
    joined with the originals' state when the other arm also falls through,
    otherwise replacing it."""
    rev = {id(c): o for o, c in pairs.values()}
    seen = set()
    for o, c in pairs.values():
        # contents of the clone with nested clones mapped to originals
        if c.items is not None:
            c.items = [_map_back(x, rev, seen) for x in c.items]
        if c.elem is not None:
            c.elem = _map_back(c.elem, rev, seen)
        if c.keys is not None:
            c.keys = {k: _map_back(x, rev, seen) for k, x in c.keys.items()}
        if c.attrs is not None:
            c.attrs = {k: _map_back(x, rev, seen) for k, x in c.attrs.items()}
    for o, c in pairs.values():
        if both:
            if o.k == 'obj':
                attrs = {}
                for k in set(o.attrs or {}) | set(c.attrs or {}):
                    a, b = (o.attrs or {}).get(k), (c.attrs or {}).get(k)
                    attrs[k] = join(a, b) if a is not None and b is not None \
                        else (a or b)
                o.attrs = attrs
                continue
            j = join(o, c)
            o.items, o.elem, o.p, o.keys = j.items, j.elem, j.p, j.keys
        else:
            o.items, o.elem, o.p, o.keys, o.attrs = \
                c.items, c.elem, c.p, c.keys, c.attrs


def unfork_env(env, pairs):
    rev = {id(c): o for o, c in pairs.values()}
    seen = set()
    return {n: (_map_back(v, rev, seen) if isinstance(v, AV) else v)
            for n, v in env.items()}


def _int_atoms(v, acc):
    if v is None:
        return
    if v.k in ('tuple', 'list') and v.items is not None:
        for x in v.items:
            _int_atoms(x, acc)
        return
    if v.p is not None:
        for a in v.p.atoms():
            if isinstance(a, tuple) and a and a[0] in ('int', 'ilog2'):
                acc.add(a)
    if v.lg is not None:
        for a in v.lg.t:
            if isinstance(a, tuple) and a and a[0] in ('int', 'ilog2'):
                acc.add(a)


def _zero_inst(v, atoms):
    """Ledger-relevant facets of v with the given exponent symbols := 0."""
    if v.k in ('tuple', 'list') and v.items is not None:
        return tuple(_zero_inst(x, atoms) for x in v.items)
    p = v.p.subs({a: 0 for a in atoms}).key() if v.p is not None else None
    lg = None
    if v.lg is not None:
        lg = Lin(v.lg.c, {a: c for a, c in v.lg.t.items()
                          if a not in atoms}).key()
    dims = None if v.dims is None else tuple(
        None if d is None else d.key() for d in v.dims)
    return (v.k, p, lg, dims)


def subsume_zero(vals):
    """Drop a return value that is the instance "all fresh exponent symbols
    = 0" of another one (e.g. core_stab: (G, p0) is (G / 2**p, p0 + p) at
    p = 0); storage origins and taints are merged into the survivor."""
    keep = list(vals)
    changed = True
    while changed and len(keep) > 1:
        changed = False
        for i, small in enumerate(keep):
            for j, big in enumerate(keep):
                if i == j:
                    continue
                sa, sb = set(), set()
                _int_atoms(small, sa)
                _int_atoms(big, sb)
                extra = sb - sa
                if not extra:
                    continue
                if _zero_inst(big, extra) == _zero_inst(small, set()):
                    keep[j] = _merge_org(big, small)
                    del keep[i]
                    changed = True
                    break
            if changed:
                break
    return keep


def _merge_org(big, small):
    if big.k in ('tuple', 'list') and big.items is not None and \
            small.items is not None and len(big.items) == len(small.items):
        n = big.copy()
        n.items = [_merge_org(a, b) for a, b in zip(big.items, small.items)]
        return n
    if big.k in ('arr', 'float', 'top'):
        return big.copy(org=big.org | small.org, taint=big.taint | small.taint)
    return big


def snapshot(v, memo=None):
    """Deep copy of heap structure (lists / dicts) so that later mutations do
    not change a value that already left on a return path."""
    memo = {} if memo is None else memo
    if v is None or not isinstance(v, AV):
        return v
    if id(v) in memo:
        return memo[id(v)]
    if v.k in ('list', 'tuple') and v.items is not None:
        n = v.copy()
        memo[id(v)] = n
        n.items = [snapshot(x, memo) for x in v.items]
        return n
    if v.k == 'dict':
        n = v.copy()
        memo[id(v)] = n
        n.keys = {k: snapshot(x, memo) for k, x in (v.keys or {}).items()}
        return n
    return v
