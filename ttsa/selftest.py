"""Self-test of the checkers: apply one source edit to a scratch copy of the
package (outside /repo and /verif), run the owning check with --repo <copy>,
require exit 1 for a property-breaking mutant and exit 0 for a behaviour
preserving twin.  Never part of a quick_cmd."""
import json
import os
import shutil
import subprocess
import sys
import tempfile
from concurrent.futures import ThreadPoolExecutor

HERE = os.path.dirname(os.path.dirname(os.path.abspath(__file__)))


def load():
    sys.path.insert(0, os.path.join(HERE, 'selftest'))
    import mutants
    return mutants.MUTANTS


def run_one(m, repo):
    tmp = tempfile.mkdtemp(prefix='ttsa-selftest-')
    try:
        shutil.copytree(os.path.join(repo, 'teneva'),
                        os.path.join(tmp, 'teneva'))
        path = os.path.join(tmp, 'teneva', m['file'])
        with open(path) as fh:
            s = fh.read()
        edits = m.get('edits') or [(m['old'], m['new'])]
        for old, new in edits:
            if s.count(old) < 1:
                return m, 'STALE', 'pattern not found: %r' % old[:50]
            s = s.replace(old, new, 1)
        with open(path, 'w') as fh:
            fh.write(s)
        try:
            compile(s, path, 'exec')
        except SyntaxError as e:
            return m, 'STALE', 'mutant does not compile: %s' % e
        props = m['prop'] if isinstance(m['prop'], list) else [m['prop']]
        outs = []
        codes = []
        for p in props:
            r = subprocess.run(
                [sys.executable, '-m', 'ttsa', 'check', p, '--repo', tmp,
                 '--no-evidence'], cwd=HERE, capture_output=True, text=True,
                timeout=600)
            codes.append(r.returncode)
            outs.append(r.stdout[-1500:] + r.stderr[-500:])
        expect = m.get('expect', 'violation')
        if expect == 'violation':
            ok = any(c == 1 for c in codes)
            if ok and m.get('names'):
                ok = any(m['names'] in o for o in outs)
        else:
            ok = all(c == 0 for c in codes)
        return m, 'PASS' if ok else 'FAIL', \
            'exit=%s %s' % (codes, '' if ok else ' | '.join(outs)[-700:])
    finally:
        shutil.rmtree(tmp, ignore_errors=True)


def main(args):
    muts = load()
    if args.only:
        pats = [x for x in args.only.split(',') if x]
        muts = [m for m in muts if any(x in m['id'] or x in str(m['prop'])
                                       for x in pats)]
    res = []
    with ThreadPoolExecutor(max_workers=args.jobs) as ex:
        for m, st, info in ex.map(lambda m: run_one(m, args.repo), muts):
            res.append((m, st, info))
            print('%-5s %-28s %-10s %s' % (st, m['id'], m['prop'],
                                           info if st != 'PASS' else ''))
    n_pass = sum(1 for _, s, _ in res if s == 'PASS')
    kills = sum(1 for m, s, _ in res if s == 'PASS' and
                m.get('expect', 'violation') == 'violation')
    twins = sum(1 for m, s, _ in res if s == 'PASS' and
                m.get('expect') == 'silent')
    print('selftest: %d/%d as expected (%d mutants killed, %d twins silent)'
          % (n_pass, len(res), kills, twins))
    return 0 if n_pass == len(res) else 1
