"""Shared driver: runs entry points through the abstract interpreter and
turns interpreter sites into obligations of a property report."""
import copy as _copy
import time

from . import model, interp, specs
from .poly import Poly, same, definitely_differ, ONE
from .values import AV


class Run:
    def __init__(self, qualname, vi, variant, d, I, result):
        self.qualname = qualname
        self.vi = vi
        self.variant = variant
        self.d = d
        self.I = I
        self.result = result
        self.returns = list(I.entry_returns)
        self.return_nodes = list(getattr(I, 'entry_return_nodes', []))

    def tag(self):
        flags = ','.join('%s=%s' % (k, v[1] if isinstance(v, tuple) else v)
                         for k, v in sorted(self.variant.items()))
        return '%s(d=%d; %s)' % (self.qualname, self.d, flags)


class Analysis:
    def __init__(self, repo):
        self.repo = repo
        self.prog = model.Program(repo)
        self._cache = {}

    def run(self, qualname, vi=0, d=3, opts=None, variant=None, label=True,
            extra_key=None):
        fn = self.prog.func(qualname)
        if variant is None:
            vs = specs.variants(qualname)
            if vs is None:
                raise model.AnalysisError('no entry spec for %s' % qualname)
            variant = vs[vi]
        key = (qualname, vi if extra_key is None else extra_key, d,
               repr(sorted((opts or {}).items(), key=repr)), label)
        specs._mv_counter[0] = 0
        if key in self._cache:
            return self._cache[key]
        o = {'split': dict(specs.DEFAULT_SPLIT),
             'lower_bounds': {},
             'summary': dict(specs.DEFAULT_SUMMARY),
             'expand_in': set(specs.EXPAND_IN)}
        if opts:
            for k_, v_ in opts.items():
                o[k_] = v_
        I = interp.Interp(self.prog, o)
        args = specs.build_args(variant, d, label=label)
        import re as _re
        docs = fn.doc_args() or {}
        for pname, v in args.items():
            ty = (docs.get(pname) or ('', ''))[0]
            if _re.search(r'\bfloat\b', ty) and not _re.search(r'\bint\b', ty) \
                    and (v.k == 'float' or (v.k == 'arr' and v.dt == 'f')):
                v.doc = 'float:' + pname
        self_ = None
        if fn.cls is not None and fn.name != '__init__':
            self_ = None
        try:
            if fn.cls is not None and fn.name == '__init__':
                obj = AV('obj', attrs={}, cls=fn.cls)
                res = I.run_function(fn, args, self_=obj)
                res = obj
            else:
                res = I.run_function(fn, args)
        except RecursionError:
            raise model.AnalysisError('recursion limit while analysing %s'
                                      % qualname)
        r = Run(qualname, vi, variant, d, I, res)
        self._cache[key] = r
        return r

    def sweep(self, qualnames, ds=(2, 3), opts=None):
        out = []
        for q in qualnames:
            vs = specs.variants(q)
            if vs is None:
                raise model.AnalysisError('no entry spec for %s' % q)
            for vi in range(len(vs)):
                for d in ds:
                    out.append(self.run(q, vi, d, opts))
        return out


def collect(rep, runs, rules, wheres=None, rename=None, only_entry=None):
    """Copy interpreter sites of the given rules into the report."""
    n = 0
    for r in runs:
        for s in r.I.sites:
            if not _match(s.rule, rules):
                continue
            if wheres is not None and not where_match(s.where, wheres):
                continue
            rule = rename.get(s.rule, s.rule) if rename else s.rule
            detail = s.detail
            if s.status == 'violation' and s.stack and len(s.stack) > 1 and \
                    s.where.startswith('utils.'):
                detail = '%s; call path %s' % (detail, ' > '.join(
                    str(x) for x in s.stack))
            rep.add(rule, s.where, s.construct, s.status, detail,
                    line=getattr(s.node, 'lineno', None),
                    file=s.mod.path if s.mod else None, facts=s.facts)
            n += 1
    return n


def where_match(where, wheres):
    """Is the site's function one of the anchored functions, or a private
    helper (leading underscore / nested def) of a module that holds one?  A
    helper extracted from an anchored function stays in scope."""
    if where in wheres:
        return True
    parts = where.split('.')
    mods = {w.split('.')[0] for w in wheres}
    if parts[0] not in mods or len(parts) < 2:
        return False
    for k in range(2, len(parts)):
        if '.'.join(parts[:k]) in wheres:
            return True     # nested def / method of an anchored function
    if parts[0] == 'utils':
        return False        # shared helpers: claimed where they are listed
    return parts[1].startswith('_') and not parts[1].startswith('__')


def _match(rule, rules):
    for p in rules:
        if p.endswith('*'):
            if rule.startswith(p[:-1]):
                return True
        elif p == rule:
            return True
    return False


def tt_wellformed(value, modes=None):
    """-> (status, detail) for a returned TT-tensor value."""
    if value is None or value.k != 'list':
        if value is not None and value.k == 'top':
            return 'unknown', 'result not typed'
        return 'violation', 'result is not a list of cores (%r)' % (value,)
    if value.items is None:
        return 'unknown', 'list of unknown length'
    items = value.items
    if not items:
        return 'violation', 'empty list of cores'
    status, detail = 'ok', ''

    def worse(s, d):
        nonlocal status, detail
        rank = {'ok': 0, 'unknown': 1, 'violation': 2}
        if rank[s] > rank[status]:
            status, detail = s, d
    prev = ONE
    for k, c in enumerate(items):
        if c.k != 'arr':
            worse('unknown' if c.k == 'top' else 'violation',
                  'core %d is %r' % (k, c))
            prev = None
            continue
        if c.dims is None:
            worse('unknown', 'core %d not typed' % k)
            prev = None
            continue
        if len(c.dims) != 3:
            worse('violation', 'core %d has %d axes %r' % (k, len(c.dims), c))
            prev = None
            continue
        if c.dt not in ('f', None):
            worse('violation', 'core %d has dtype kind %s' % (k, c.dt))
        a, n, b = c.dims
        # a bond that is a merged PAIR of ranks (Kronecker cores of a product)
        # is enumerated in the same order by the two cores that share it
        if k > 0 and items[k - 1].k == 'arr' and \
                items[k - 1].lay is not None and c.lay is not None and \
                len(items[k - 1].lay) == 3 and len(c.lay) == 3:
            from .layout import layouts_conflict as _lc
            if _lc(items[k - 1].lay[2], c.lay[0]):
                worse('violation', 'bond %d is a merged pair enumerated as '
                      '%s (fastest first) by core %d and as %s by core %d: '
                      'the chain pairs entry (i, j) with entry (j, i)'
                      % (k, items[k - 1].lay[2], k - 1, c.lay[0], k))
        if prev is not None and a is not None:
            if same(prev, a):
                pass
            elif definitely_differ(prev, a):
                worse('violation', 'bond %d: left neighbour has %r, core %d '
                      'has %r' % (k, prev, k, a))
            else:
                worse('unknown', 'bond %d: %r ?= %r' % (k, prev, a))
        elif prev is None or a is None:
            worse('unknown', 'bond %d not typed' % k)
        if modes is not None and k < len(modes) and modes[k] is not None:
            if n is None:
                worse('unknown', 'mode %d not typed' % k)
            elif same(n, modes[k]):
                pass
            elif definitely_differ(n, modes[k]):
                worse('violation', 'mode %d has size %r, expected %r'
                      % (k, n, modes[k]))
            else:
                worse('unknown', 'mode %d: %r ?= %r' % (k, n, modes[k]))
        prev = b
    if modes is not None and len(modes) != len(items):
        worse('violation', 'result has %d cores, expected %d'
              % (len(items), len(modes)))
    if prev is not None:
        if not same(prev, ONE):
            if definitely_differ(prev, ONE):
                worse('violation', 'last bond is %r, not 1' % prev)
            else:
                worse('unknown', 'last bond %r ?= 1' % prev)
    return status, detail
