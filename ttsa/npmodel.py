"""Transfer functions for NumPy semantics: operators, indexing, attributes.

External *calls* live in ``npcalls`` and builtins / methods in ``npbuiltins``;
``Model`` mixes them in.  Every transfer function errs toward Top (shape) and
toward "may be a view" (storage).
"""
import ast
import math
from fractions import Fraction

from .poly import Poly, Lin, fn_atom, pmin, pmax, same, definitely_differ, \
    lower_bound, ONE
from .values import AV, TOP, NONE, BOOL, INT, FLOAT, STR, ARR, LIST, TUPLE, \
    DICT, EXT, GEN, NOCONST, from_const, join, join_all, join_dim, \
    SymKey, dict_key
from .npcalls import CallsMixin
from .npbuiltins import BuiltinsMixin

ARITH = {ast.Add: '+', ast.Sub: '-', ast.Mult: '*', ast.Div: '/',
         ast.FloorDiv: '//', ast.Mod: '%', ast.Pow: '**', ast.MatMult: '@',
         ast.BitAnd: '&', ast.BitOr: '|', ast.BitXor: '^',
         ast.LShift: '<<', ast.RShift: '>>'}


def is_num(v):
    return v.k in ('int', 'float', 'bool')


def dt_of(v):
    if v.k == 'arr':
        return v.dt
    if v.k in ('int',):
        return 'i'
    if v.k == 'bool':
        return 'b'
    if v.k == 'float':
        return 'f'
    return None


def promote(a, b, op=None):
    da, db = dt_of(a), dt_of(b)
    if op == '/':
        return 'f'
    if da is None or db is None:
        return None
    order = {'b': 0, 'i': 1, 'f': 2, 'c': 3, 'o': 4}
    return da if order.get(da, 4) >= order.get(db, 4) else db


class Model(CallsMixin, BuiltinsMixin):
    def __init__(self, interp):
        self.I = interp

    # ------------------------------------------------------------------
    def site(self, *a, **k):
        self.I.site(*a, **k)

    # ------------------------------------------------------------------
    # broadcasting
    def broadcast(self, da, db, node, rule='S-bcast'):
        """Broadcast two dim tuples; record a site."""
        if da is None or db is None:
            return None
        n = max(len(da), len(db))
        pa = (ONE,) * (n - len(da)) + tuple(da)
        pb = (ONE,) * (n - len(db)) + tuple(db)
        out = []
        status = 'ok'
        detail = ''
        for x, y in zip(pa, pb):
            if x is None or y is None:
                # an untyped extent against 1 stays untyped; against any
                # other extent the result is that extent
                known = y if x is None else x
                out.append(None if known is None or known.as_int() == 1
                           else known)
                if x is None and y is None:
                    status = 'unknown' if status == 'ok' else status
                continue
            if same(x, y):
                out.append(x)
            elif x.as_int() == 1:
                out.append(y)
            elif y.as_int() == 1:
                out.append(x)
            elif definitely_differ(x, y):
                status = 'violation'
                detail = 'operands cannot be broadcast: %r vs %r' % (x, y)
                out.append(None)
            else:
                if status == 'ok':
                    status = 'unknown'
                out.append(x)
        if node is not None and (len(da) > 0 and len(db) > 0):
            self.site(rule, node, status, detail,
                      {'lhs': _dstr(da), 'rhs': _dstr(db)})
        return tuple(out)

    # ------------------------------------------------------------------
    # operators
    def unop(self, op, v, node):
        if isinstance(op, ast.USub):
            if v.k == 'int':
                if v.p is not None:
                    return INT(-v.p)
                return INT()
            if v.k == 'float':
                return v.copy(c=-v.c if v.has_const() else NOCONST,
                              nonneg=False)
            if v.k == 'arr':
                return v.copy(org=frozenset(), orth=None, nonneg=False,
                              normed=False, uninit=False)
        if isinstance(op, ast.UAdd):
            return v
        if isinstance(op, ast.Invert) and v.k == 'arr':
            return v.copy(org=frozenset())
        return TOP()

    def binop(self, op, a, b, node, inplace=False, env=None):
        sym = ARITH.get(type(op))
        if sym is None:
            return TOP()
        if sym == '-' and isinstance(a.src, tuple) and a.src and \
                a.src[0] == 'cumsum' and a.src == b.src:
            # total - prefix sums of one non-negative array: the tail sums
            # come out with the absolute error of the TOTAL
            self.site('G-cancel', node, 'violation',
                      'a tail sum is formed as the difference of two prefix '
                      'sums of the same non-negative array: its error is of '
                      'the order of the rounding of the total, so tails far '
                      'below the total (the accuracy budget e**2) are not '
                      'resolved; accumulate from the small end instead')
        # python numbers
        if is_num(a) and is_num(b):
            return self.num_binop(sym, a, b, node, env)
        if sym == '+' and a.k in ('list', 'tuple') and b.k == a.k:
            if a.items is not None and b.items is not None:
                return AV(a.k, items=list(a.items) + list(b.items))
            els = []
            for x in (a, b):
                if x.items is not None:
                    els.extend(x.items)
                elif x.elem is not None:
                    els.append(x.elem)
            return AV(a.k, elem=join_all(els) if els else None)
        if sym == '*' and a.k in ('list', 'tuple') and b.k == 'int':
            if a.items is not None and b.has_const() and \
                    b.c * len(a.items) <= 64:
                return AV(a.k, items=list(a.items) * max(b.c, 0))
            el = join_all(a.items) if a.items else a.elem
            ln = None
            if a.items is not None and b.p is not None:
                ln = b.p * len(a.items)
            return AV(a.k, elem=el, p=ln)
        if sym == '*' and b.k in ('list', 'tuple') and a.k == 'int':
            return self.binop(op, b, a, node)
        if sym == '+' and a.k == 'str' and b.k == 'str':
            return STR()
        if sym == '%' and a.k == 'str':
            return STR()
        if sym == '@':
            return self.matmul(a, b, node)
        if a.k == 'arr' or b.k == 'arr':
            return self.arr_binop(sym, a, b, node, env)
        if a.k == 'obj' or b.k == 'obj' or a.k == 'top' or b.k == 'top':
            t = TOP()
            t.taint = a.taint | b.taint
            return t
        return TOP()

    def num_binop(self, sym, a, b, node, env):
        I = self.I
        both_int = a.k in ('int', 'bool') and b.k in ('int', 'bool')
        ca = a.c if a.has_const() else None
        cb = b.c if b.has_const() else None
        if ca is not None and cb is not None:
            try:
                if sym == '+':
                    r = ca + cb
                elif sym == '-':
                    r = ca - cb
                elif sym == '*':
                    r = ca * cb
                elif sym == '/':
                    r = ca / cb
                elif sym == '//':
                    r = ca // cb
                elif sym == '%':
                    r = ca % cb
                elif sym == '**':
                    r = ca ** cb
                    if isinstance(r, complex) or (isinstance(r, int) and
                                                  abs(r) > 10**30):
                        r = None
                elif sym == '<<':
                    r = ca << cb if cb < 200 else None
                elif sym == '>>':
                    r = ca >> cb
                elif sym == '&':
                    r = ca & cb
                elif sym == '|':
                    r = ca | cb
                else:
                    r = None
            except Exception:
                r = None
            if r is not None:
                out = from_const(r)
                if out.k == 'float':
                    self._num_facets(out, sym, a, b, node, env)
                return out
        if both_int and sym in ('+', '-', '*', '//', '%', '**', '<<'):
            pa, pb = a.p, b.p
            if sym == '%' and pb is not None:
                # x % n with a positive modulus is in [0, n)
                lb_ = lower_bound(pb, self.I.opts.get('lower_bounds'))
                if lb_ is not None and lb_ > 0:
                    r_ = INT(fn_atom('mod', pa, pb)) if pa is not None \
                        else INT()
                    r_.nonneg = True
                    return r_
            if pa is None or pb is None:
                return INT()
            if sym == '+':
                return INT(pa + pb)
            if sym == '-':
                return INT(pa - pb)
            if sym == '*':
                return INT(pa * pb)
            if sym == '**':
                n = pb.as_int()
                if n is not None and 0 <= n <= 6:
                    return INT(pa ** n)
                if pa.as_int() == 2:
                    return INT(fn_atom('pow2', pb))
                return INT()
            if sym == '<<':
                if pa.as_int() == 1:
                    return INT(fn_atom('pow2', pb))
                return INT()
            if sym == '//':
                q = pa.div_exact(pb)
                if q is not None and all(c.denominator == 1
                                         for c in q.t.values()):
                    return INT(q)
                return INT(fn_atom('floordiv', pa, pb))
            if sym == '%':
                return INT(fn_atom('mod', pa, pb))
        out = FLOAT() if (sym == '/' or not both_int) else INT()
        if out.k == 'float':
            self._num_facets(out, sym, a, b, node, env)
            # exponent arithmetic: keep the symbolic value of  p / 2, p / d, ...
            if a.p is not None and b.has_const() and \
                    isinstance(b.c, (int, float)) and b.c != 0 and \
                    a.k in ('int', 'float'):
                f = Fraction(b.c).limit_denominator(10**6)
                if sym == '/':
                    out.p = a.p.scale(1 / f)
                elif sym == '*':
                    out.p = a.p.scale(f)
            elif a.p is not None and b.p is not None and sym in ('+', '-') \
                    and a.k in ('int', 'float') and b.k in ('int', 'float'):
                out.p = a.p + b.p if sym == '+' else a.p - b.p
            # sign arithmetic:  c + x  with c > 0, x >= 0  is positive
            def _pos(v):
                return v.has_const() and isinstance(v.c, (int, float)) and \
                    not isinstance(v.c, bool) and v.c > 0

            def _nn(v):
                return bool(v.nonneg) or (
                    v.has_const() and isinstance(v.c, (int, float)) and
                    v.c >= 0)
            if sym == '+' and ((_pos(a) and _nn(b)) or (_pos(b) and _nn(a))):
                out.nonneg = True
                if out.note is None:
                    out.note = 'nonzero'
            elif sym in ('+', '*') and _nn(a) and _nn(b):
                out.nonneg = True
        return out

    # --- facets on scalar / array arithmetic (U, G)
    def _num_facets(self, out, sym, a, b, node, env):
        out.taint = a.taint | b.taint
        if sym == '/':
            self.division(out, a, b, node, env)
        la = a.lg if a.lg is not None else (Lin(0) if self._plain(a) else None)
        lb = b.lg if b.lg is not None else (Lin(0) if self._plain(b) else None)
        if sym == '*' and la is not None and lb is not None:
            out.lg = la + lb
        elif sym == '/' and la is not None and lb is not None:
            out.lg = la - lb
        elif sym in ('+', '-') and la is not None and lb is not None:
            out.lg = la if la == lb else None
        elif sym == '**':
            # 2 ** x : a pure power of two with exponent x
            if a.has_const() and a.c in (2, 2.0):
                e = self.as_lin(b)
                if e is not None:
                    out.lg = e
                out.nonneg = True
                out.note = 'pow2'
            elif b.has_const() and isinstance(b.c, (int, float)) and \
                    la is not None:
                out.lg = la.scale(Fraction(b.c).limit_denominator(1000))
        # units
        ua, ub = self.unit_of(a), self.unit_of(b)
        if sym == '*' and ua is not None and ub is not None:
            out.unit = ua + ub
        elif sym == '/' and ua is not None and ub is not None:
            out.unit = ua - ub
        elif sym in ('+', '-'):
            out.unit = ua if ua == ub else (ua if ub is None and
                                            self._plain(b) and False else None)
        elif sym == '**' and b.has_const() and ua is not None and \
                isinstance(b.c, (int, float)):
            out.unit = ua * Fraction(b.c).limit_denominator(1000)
        # degree in named scalars
        da, db = self.deg_of(a), self.deg_of(b)
        if sym == '*' and da is not None and db is not None:
            out.deg = _dadd(da, db, 1)
        elif sym == '/' and da is not None and db is not None:
            out.deg = _dadd(da, db, -1)
        elif sym == '**' and da is not None and b.has_const() and \
                isinstance(b.c, (int, float)):
            f = Fraction(b.c).limit_denominator(10000)
            out.deg = {k: v * f for k, v in da.items()}
        elif sym in ('+', '-') and da is not None and da == db:
            out.deg = da
        if (da is None or db is None) and sym in ('*', '/', '**', '+', '-'):
            out.degq = True     # an operand of unknown degree
        elif sym in ('+', '-') and da != db:
            out.degq = True

    def _plain(self, v):
        return v.k in ('int', 'bool') or (v.k == 'float' and v.has_const())

    def as_lin(self, v):
        """Linear form of a number (for exponents)."""
        if v.k in ('int', 'bool') and v.has_const():
            return Lin(int(v.c))
        if v.k == 'float' and v.has_const() and \
                Fraction(v.c).limit_denominator(10**6) == Fraction(v.c):
            return Lin(Fraction(v.c))
        if v.lg is not None and v.note == 'explin':
            return v.lg
        if v.k in ('int', 'float') and v.p is not None:
            lin = _poly_to_lin(v.p)
            if lin is not None:
                return lin
        if v.idx is not None and isinstance(v.idx, Lin):
            return v.idx
        return None

    def unit_of(self, v):
        if v.unit is not None:
            return v.unit
        if v.k in ('int', 'bool') or (v.k == 'float' and v.has_const()):
            return Fraction(0)
        return None

    def deg_of(self, v):
        if v.degq:
            return None
        if v.deg is not None:
            return v.deg
        if v.k in ('int', 'bool') or (v.k == 'float' and v.has_const()):
            return {}
        if v.k == 'arr':
            return {}          # arrays carry degree 0 unless marked
        return None

    def division(self, out, a, b, node, env):
        """G: record a division site; taint the result when the denominator
        is data derived and not known to be non-zero."""
        safe, why = self.nonzero(b, node, env)
        construct = None
        mod = self.I.mod()
        if isinstance(node, (ast.BinOp, ast.AugAssign)):
            den = node.right if isinstance(node, ast.BinOp) else node.value
            from . import model as _m
            construct = '/ ' + _m.norm_src(mod, den)
        if safe:
            self.site('G-div', node, 'ok', why, construct=construct)
        else:
            self.site('G-div', node, 'unknown', why, construct=construct)
            out.taint = out.taint | frozenset(
                ['%s:%s %s' % (self.I.where(), getattr(node, 'lineno', 0),
                               construct or '')])

    def nonzero(self, b, node, env):
        """Is the abstract number / array b certainly free of zeros?"""
        if b.has_const() and b.k in ('int', 'float', 'bool'):
            return (b.c != 0, 'literal %r' % (b.c,))
        if b.note == 'pow2':
            return True, 'power of two'
        if b.note == 'nonzero':
            return True, 'guarded / positive by construction'
        if b.k == 'int' and b.p is not None:
            lb = lower_bound(b.p, self.I.opts.get('lower_bounds'))
            if lb is not None and lb > 0:
                return True, 'size-positive %r' % (b.p,)
        if b.k == 'arr' and b.lo is not None and b.lo > 0:
            return True, 'entries >= %s' % b.lo
        if b.k == 'arr' and b.items is not None and b.items:
            lbs = [lower_bound(x.p, self.I.opts.get('lower_bounds'))
                   if x.p is not None else None for x in b.items]
            if all(l is not None and l > 0 for l in lbs):
                return True, 'size-positive entries'
        if b.k == 'float' and b.p is not None:
            lb = lower_bound(b.p, self.I.opts.get('lower_bounds'))
            if lb is not None and lb > 0:
                return True, 'size-positive %r' % (b.p,)
        # guarded by a dominating test on the same expression
        den = None
        if isinstance(node, ast.BinOp):
            den = node.right
        elif isinstance(node, ast.AugAssign):
            den = node.value
        if den is not None and env is not None:
            from . import model as _m
            src = _m.norm_src(self.I.mod(), den)
            for fact, pol in env.get('$facts', ()):
                if _guards(fact, pol, src):
                    return True, 'guarded by (%s) is %s' % (fact, pol)
        return False, 'data-derived denominator'

    # ------------------------------------------------------------------
    def arr_binop(self, sym, a, b, node, env):
        da = a.dims if a.k == 'arr' else (() if is_num(a) else None)
        db = b.dims if b.k == 'arr' else (() if is_num(b) else None)
        if a.k in ('list', 'tuple') and a.items is not None:
            da = (Poly.const(len(a.items)),)
        if b.k in ('list', 'tuple') and b.items is not None:
            db = (Poly.const(len(b.items)),)
        ia = a.items if a.k == 'arr' else None
        ib = b.items if b.k == 'arr' else None
        if (ia is not None or ib is not None) and sym in ('+', '-', '*', '//'):
            xa = ia if ia is not None else ([a] * len(ib) if a.k in
                                            ('int', 'bool') else None)
            xb = ib if ib is not None else ([b] * len(ia) if b.k in
                                            ('int', 'bool') else None)
            if xa is not None and xb is not None and len(xa) == len(xb):
                its = [self.num_binop(sym, x, y, node, env)
                       for x, y in zip(xa, xb)]
                if all(x.k == 'int' for x in its):
                    r = ARR((Poly.const(len(its)),), 'i')
                    r.items = its
                    return r
        dims = self.broadcast(da, db, node)
        out = ARR(dims, promote(a, b, sym))
        out.lo = self._lo_binop(sym, a, b)
        out.nonlin = bool(getattr(a, 'nonlin', False) or
                          getattr(b, 'nonlin', False))
        if sym in ('**', '//', '%') or (sym == '/' and b.k == 'arr'):
            out.nonlin = True
        if sym == '*' and a.k == 'arr' and b.k == 'arr' and \
                a.src is not None and a.src is b.src:
            out.nonlin = True
        if a.k == 'arr' and b.k != 'arr':
            out.lay = a.lay
        elif b.k == 'arr' and a.k != 'arr':
            out.lay = b.lay
        if sym in ('&', '|', '^') and a.dt == 'b':
            out.dt = 'b'
        out.taint = a.taint | b.taint
        self._num_facets(out, sym, a, b, node, env)
        # orthogonality: U * w (columns scaled) etc -> weighted
        out.orth = None
        if sym == '*':
            for x, y in ((a, b), (b, a)):
                if x.k == 'arr' and y.k == 'arr' and x.dims is not None and \
                        y.dims is not None:
                    if x.orth == 'invsing' and len(x.dims) == 2 and \
                            y.orth == 'rows' and x.src is not None and \
                            y.src is not None and x.src[:3] == y.src[:3]:
                        out.orth = 'whiten'
                        out.src = x.src
                    elif x.orth == 'cols' and len(x.dims) == 2 and \
                            len(y.dims) == 1 and y.orth == 'invsing' and \
                            x.src is not None and y.src is not None and \
                            x.src[:3] == y.src[:3]:
                        # U * (1 / w): the transposed whitening factor
                        out.orth = 'whitenT'
                        out.src = x.src
                    elif x.orth == 'cols' and len(y.dims) == 1 and \
                            y.orth in ('sing', 'sigma'):
                        out.orth = 'weighted'
                    elif x.orth == 'cols' and len(y.dims) == 1 and \
                            y.orth == 'halfvec':
                        out.orth = 'half'
                    elif x.orth in ('cols', 'rows') and y.orth == 'signvec':
                        # np.sign(.) is 0 for a zero entry: a column / row of
                        # an orthonormal factor may be wiped out
                        out.orth = 'zeroed'
                        self.site('O-sign', node, 'violation',
                                  'an orthonormal factor is multiplied by '
                                  'np.sign(...), which is 0 for a zero entry: '
                                  'the factor loses a column / row for '
                                  'rank-deficient input')
        if sym == '/' and a.has_const() and b.k == 'arr' and \
                b.orth in ('sing', 'sigma'):
            out.orth = 'invsing'
            out.src = b.src
        if sym == '**' and a.k == 'arr' and a.orth in ('sing', 'sigma') and \
                b.has_const() and b.c == 2:
            out.orth = 'eig'
            out.src = a.src
        if sym == '*' and ((a.nonneg and b.nonneg) or a is b):
            out.nonneg = True
        if a.k == 'arr' and isinstance(a.rel, tuple) and \
                a.rel[0] in ('rev', 'sq-rev') and (
                    (sym == '**' and b.has_const()) or
                    (sym == '*' and (a is b or b.k != 'arr')) or
                    (sym == '/' and b.k != 'arr')):
            out.rel = ('sq-rev',)
        if sym == '**' and b.has_const() and b.c in (2, 2.0):
            out.nonneg = True
            if a.k == 'arr':
                # scale of the squared operand: a power-of-two ledger (or a
                # division by its own norm / sum) means the entries are
                # bounded; a pivot core that carries the whole norm of the
                # tensor and has no ledger overflows when squared
                stab = a.lg is not None and any(
                    'core_stab' in repr(t) for t in a.lg.t)
                raw = a.lg is not None and not a.lg.t and \
                    a.note != 'unitscale'
                self.site('U-square', node,
                          'ok' if (stab or a.note == 'unitscale') else
                          'unknown', 'raw' if raw else '',
                          {'lg': a.lg, 'note': a.note})
        if sym == '/' and a.nonneg and (b.nonneg):
            out.nonneg = True
        if sym == '/' and b.note == 'sum' and b.src is a:
            out.normed = True
            out.nonneg = a.nonneg
        if sym == '/' and b.note == 'norm' and b.src is a:
            out.note = 'unitscale'
        if a.k == 'arr' and a.cnt is not None and b.k == 'int' and \
                b.p is not None:
            if sym == '/':
                out.cnt = (a.cnt[0], a.cnt[1] * b.p)
            elif sym == '*':
                out.cnt = (a.cnt[0] * b.p, a.cnt[1])
        return out

    def lo_of(self, v):
        """Lower bound of all entries of an int array / int scalar."""
        if v.k == 'arr':
            if v.lo is not None:
                return v.lo
            if v.items:
                lbs = [lower_bound(x.p, self.I.opts.get('lower_bounds'))
                       if x.p is not None else None for x in v.items]
                if all(l is not None for l in lbs):
                    return min(lbs)
            return None
        if v.k in ('int', 'bool') and v.p is not None:
            return lower_bound(v.p, self.I.opts.get('lower_bounds'))
        if v.has_const() and isinstance(v.c, (int, float)):
            return Fraction(v.c).limit_denominator(10**9)
        return None

    def _lo_binop(self, sym, a, b):
        la, lb = self.lo_of(a), self.lo_of(b)
        if sym == '+' and la is not None and lb is not None:
            return la + lb
        if sym == '-' and la is not None and b.has_const() and \
                isinstance(b.c, (int, float)):
            return la - Fraction(b.c).limit_denominator(10**9)
        if sym == '*' and la is not None and lb is not None and la >= 0 \
                and lb >= 0:
            return la * lb
        return None

    def matmul(self, a, b, node):
        if a.k != 'arr' or b.k != 'arr' or a.dims is None or b.dims is None:
            if (a.k == 'arr' and a.dims is not None) or \
                    (b.k == 'arr' and b.dims is not None):
                self.site('S-matmul', node, 'unknown', 'operand not typed')
            t = ARR(None, 'f')
            t.taint = a.taint | b.taint
            return t
        da, db = a.dims, b.dims
        if len(da) == 0 or len(db) == 0:
            self.site('S-matmul', node, 'violation',
                      'matmul with a 0-d operand')
            return ARR(None, 'f')
        ka = da[-1]
        kb = db[0] if len(db) == 1 else db[-2]
        self.unify(ka, kb, node, 'S-matmul',
                   {'lhs': _dstr(da), 'rhs': _dstr(db)})
        if len(da) == 1 and len(db) == 1:
            out = FLOAT()
        elif len(da) == 1:
            out = ARR(db[:-2] + db[-1:], 'f')
        elif len(db) == 1:
            out = ARR(da[:-1], 'f')
        else:
            lead = self.broadcast(da[:-2], db[:-2], None)
            out = ARR(tuple(lead or ()) + (da[-2], db[-1]), 'f')
        out.taint = a.taint | b.taint
        # the contracted axis enumerates a PAIR of indices on both sides (a
        # merged bond (r1, r2)): the two operands must enumerate the pair in
        # the same order, otherwise the product pairs entry (i, j) of one
        # side with entry (j, i) of the other
        if a.lay is not None and b.lay is not None and len(db) >= 2:
            la_, lb_ = a.lay[-1], b.lay[0 if len(db) == 2 else -2]
            from .layout import layouts_conflict as _lc
            if la_ is not None and lb_ is not None:
                if _lc(la_, lb_):
                    self.site('S-layout', node, 'violation',
                              'the contracted axis is a merged pair of '
                              'indices enumerated as %s (fastest first) on '
                              'the left and as %s on the right'
                              % (la_, lb_))
                elif len(la_) >= 2 and len(la_) == len(lb_) and all(
                        same(x_, y_) for x_, y_ in zip(la_, lb_)):
                    self.site('S-layout', node, 'ok',
                              'merged pair enumerated alike on both sides')
        if len(da) == 2 and len(db) == 2 and (a.lay is not None or
                                              b.lay is not None):
            # the rows keep the composite order of the left operand's rows,
            # the columns that of the right operand's columns
            out.lay = (a.lay[0] if a.lay is not None else None,
                       b.lay[1] if b.lay is not None else None)
            if out.lay == (None, None):
                out.lay = None
        if len(da) == 2 and len(db) == 1 and isinstance(b.rel, tuple) and \
                b.rel[0] == 'row' and b.rel[1] is a:
            out.rel = ('gramrow', b.rel[2])
        if a.nonlin or b.nonlin:
            self.site('L-lin', node, 'violation',
                      'an operand of this contraction is a non-linear '
                      'function of the cores (clipped / absolute value / '
                      'power): partial sums no longer telescope')
            out.nonlin = True
        else:
            self.site('L-lin', node, 'ok')
        la = a.lg
        lb = b.lg
        if la is not None and lb is not None:
            out.lg = la + lb
        ua, ub = a.unit, b.unit
        if ua is not None and ub is not None:
            out.unit = ua + ub
        da_, db_ = self.deg_of(a), self.deg_of(b)
        if da_ is not None and db_ is not None and (da_ or db_):
            out.deg = _dadd(da_, db_, 1)
        if a.cnt is not None and b.cnt is not None:
            out.cnt = (a.cnt[0] * b.cnt[0], a.cnt[1] * b.cnt[1])
        out.orth = self.orth_matmul(a, b)
        # Gram matrices  A @ A.T  /  A.T @ A  of one array
        # (the transpose relation is kept by object identity, so any spelling
        # of the product -- @, np.matmul, .dot -- is recognised)
        if len(da) == 2 and len(db) == 2:
            if isinstance(b.rel, tuple) and b.rel[0] == 'T' and \
                    b.rel[1] is a:
                out.src = ('gram', 'left', id(a), a)
                out.unit = 2 * (a.unit if a.unit is not None else 1)
            if isinstance(a.rel, tuple) and a.rel[0] == 'T' and \
                    a.rel[1] is b:
                out.src = ('gram', 'right', id(b), b)
                out.unit = 2 * (b.unit if b.unit is not None else 1)
        if a.orth == 'whiten' and a.src is not None and \
                a.src[0] == 'gram' and a.src[1] == 'left' and \
                a.src[2] == id(b):
            out.orth = 'rows'
        return out

    def orth_matmul(self, a, b):
        """O: factor state of a product."""
        oa, ob = a.orth, b.orth
        if oa is None or ob is None:
            # a product with the weighted triangular / diagonal factor carries
            # the weights (it is not an orthonormal factor)
            other = b if oa == 'weighted' else (a if ob == 'weighted'
                                                else None)
            if other is not None and other.note == 'input':
                return 'weighted'       # weights times raw caller data
            return None
        tbl = {
            ('cols', 'sigma'): 'weighted', ('sigma', 'rows'): 'weighted',
            ('cols', 'half'): 'half', ('half', 'rows'): 'half',
            ('cols', 'cols'): 'cols', ('rows', 'rows'): 'rows',
            ('sigma', 'weighted'): 'weighted', ('weighted', 'sigma'): 'weighted',
        }
        return tbl.get((oa, ob), 'weighted' if 'weighted' in (oa, ob)
                       else None)

    def unify(self, x, y, node, rule, facts=None, what='contracted axis'):
        if x is None or y is None:
            self.site(rule, node, 'unknown', 'dim not typed', facts)
            return False
        if same(x, y):
            self.site(rule, node, 'ok', '', facts)
            return True
        if definitely_differ(x, y):
            self.site(rule, node, 'violation',
                      '%s has sizes %r and %r' % (what, x, y), facts)
            return False
        self.site(rule, node, 'unknown', '%r ?= %r' % (x, y), facts)
        return False

    # ------------------------------------------------------------------
    def compare(self, op, a, b, node):
        I = self.I
        for x, y in ((a, b), (b, a)):
            if x.k == 'int' and x.note == 'mask-size' and y.has_const() and \
                    y.c == 0 and isinstance(op, (ast.Eq, ast.NotEq, ast.Gt,
                                                 ast.Lt, ast.LtE, ast.GtE)):
                self.site('K-empty', node, 'violation',
                          'emptiness of a selection is tested through the '
                          'SIZE of a boolean mask: the size is the number of '
                          'samples, not the number of selected ones (use '
                          '.sum() / .any())')
        if isinstance(op, (ast.Is, ast.IsNot)):
            pos = isinstance(op, ast.Is)
            if b.k == 'none' or a.k == 'none':
                x = a if b.k == 'none' else b
                if x.k == 'none':
                    return BOOL(pos)
                if x.k == 'top' or x.maybe_none:
                    return BOOL()
                return BOOL(not pos)
            if a.k == 'bool' and b.k == 'bool' and a.has_const() and \
                    b.has_const():
                return BOOL((a.c is b.c) == pos)
            if b.k == 'bool' and b.has_const() and a.k not in ('bool', 'top'):
                return BOOL(not pos)
            return BOOL()
        if isinstance(op, (ast.In, ast.NotIn)):
            pos = isinstance(op, ast.In)
            if b.k == 'arr' and b.dims is not None and (
                    len(b.dims) >= 2 or a.k in ('arr', 'list', 'tuple')):
                # x in <ndarray> is (arr == x).any(): element-wise, not
                # membership of a row / of a sequence
                self.site('K-inarr', node, 'violation',
                          'membership test on an ndarray of %d axes: NumPy '
                          'evaluates (array == item).any() element-wise, so '
                          'an item that shares a single coordinate with some '
                          'row "is in" the array (and a sequence item against '
                          'a list of arrays raises)' % len(b.dims))
            if b.k in ('list', 'tuple') and b.items is not None and \
                    a.has_const() and all(x.has_const() for x in b.items):
                return BOOL((a.c in [x.c for x in b.items]) == pos)
            if b.k == 'dict' and a.has_const() and b.elem is None and \
                    b.keys is not None and b.label is None:
                return BOOL((a.c in b.keys) == pos)
            if b.k == 'dict' and b.elem is None and not b.keys and \
                    b.label is None and not b.maybe_none:
                return BOOL(not pos)    # nothing is in an empty dict
            dk = dict_key(a) if b.k == 'dict' else None
            if isinstance(dk, SymKey) and b.keys is not None:
                if dk in b.keys and not b.keys[dk].maybe_none:
                    return BOOL(pos)
                if dk not in b.keys and b.elem is None and \
                        b.label is None and not b.maybe_none:
                    # generic position: different size expressions are
                    # different keys (a memo table keyed by sizes is filled
                    # for every distinct expression)
                    return BOOL(not pos)
            if b.k in ('list', 'tuple', 'set') and b.items is not None and \
                    not b.items:
                return BOOL(not pos)
            if b.k == 'dict' and a.has_const() and a.c in (b.keys or {}) \
                    and not b.keys[a.c].maybe_none:
                return BOOL(pos)
            if b.k == 'str' and b.has_const() and a.has_const():
                return BOOL((a.c in b.c) == pos)
            return BOOL()
        if isinstance(op, (ast.Eq, ast.NotEq)) and \
                a.k in ('list', 'tuple') and a.k == b.k and \
                a.items is not None and b.items is not None:
            # sequences compare element-wise: equal when every pair is
            # known equal, different when the lengths or one pair differ
            pos = isinstance(op, ast.Eq)
            if len(a.items) != len(b.items):
                return BOOL(not pos)
            verdict = True
            for x, y in zip(a.items, b.items):
                if x.k in ('arr', 'top') or y.k in ('arr', 'top'):
                    verdict = None
                    break
                t = I.truth(self.compare(ast.Eq(), x, y, node))
                if t is False:
                    return BOOL(not pos)
                if t is None:
                    verdict = None
            if verdict is True:
                return BOOL(pos)
            return BOOL()
        if a.k == 'arr' or b.k == 'arr':
            da = a.dims if a.k == 'arr' else ()
            db = b.dims if b.k == 'arr' else ()
            if b.k not in ('arr', 'int', 'float', 'bool'):
                db = None
            if a.k not in ('arr', 'int', 'float', 'bool'):
                da = None
            dims = self.broadcast(da, db, node) if da is not None and \
                db is not None else None
            self.unit_cmp(a, b, node)
            if isinstance(op, ast.Eq):
                for x, y in ((a, b), (b, a)):
                    if x.k == 'arr' and x.idx == 'arange' and \
                            y.k == 'int' and not y.nonneg and \
                            not (y.has_const() and y.c >= 0):
                        # a one-hot pattern  arange(n) == j : a position j
                        # counted from the end (negative) matches nothing
                        self.site('K-negidx', node, 'unknown',
                                  'an index that may be negative (counted '
                                  'from the end) is compared by value with '
                                  'arange(n): negative positions select '
                                  'nothing')
            rm = ARR(dims, 'b')
            # mask of the non-zero entries of one array:  x > c, c < x (c >= 0),
            # x != 0, abs(x) > c  ->  x[mask] has no zero entry
            def _nn0(v):
                return v.has_const() and isinstance(v.c, (int, float)) and \
                    not isinstance(v.c, bool) and v.c >= 0
            if a.k == 'arr' and b.has_const() and b.c == 0 and \
                    not isinstance(b.c, bool) and isinstance(op, ast.Lt):
                rm.rel = ('negmask', a)
            elif b.k == 'arr' and a.has_const() and a.c == 0 and \
                    not isinstance(a.c, bool) and isinstance(op, ast.Gt):
                rm.rel = ('negmask', b)
            if a.k == 'arr' and _nn0(b) and isinstance(op, ast.Gt):
                rm.rel = ('nzmask', a.rel[1] if isinstance(a.rel, tuple) and
                          a.rel[0] == 'absof' else a)
            elif b.k == 'arr' and _nn0(a) and isinstance(op, ast.Lt):
                rm.rel = ('nzmask', b.rel[1] if isinstance(b.rel, tuple) and
                          b.rel[0] == 'absof' else b)
            elif isinstance(op, ast.NotEq):
                for x, y in ((a, b), (b, a)):
                    if x.k == 'arr' and y.has_const() and y.c == 0 and \
                            not isinstance(y.c, bool):
                        rm.rel = ('nzmask', x)
            # prefix sums of non-negative terms are non-decreasing:
            #   cumsum(x) <= c  /  c >= cumsum(x)   is True on a PREFIX.
            # The number of True entries is one data dependent count D with
            # 0 <= D <= len; where(mask)[0] is then arange(D).
            cs = None
            if a.k == 'arr' and b.k != 'arr' and isinstance(
                    op, (ast.LtE, ast.Lt)):
                cs = a
            elif b.k == 'arr' and a.k != 'arr' and isinstance(
                    op, (ast.GtE, ast.Gt)):
                cs = b
            if cs is not None and isinstance(cs.src, tuple) and cs.src and \
                    cs.src[0] == 'cumsum' and cs.dims is not None and \
                    len(cs.dims) == 1 and cs.dims[0] is not None:
                from . import poly as _poly
                # the atom carries what it counts: (tag, where, line, serial,
                # length of the mask, strict comparison?, sums from the end?)
                I.fresh_n += 1
                at = ('count', I.where(), getattr(node, 'lineno', 0),
                      I.fresh_n, cs.dims[0],
                      isinstance(op, (ast.Lt, ast.Gt)),
                      cs.rel == ('cumsum-rev',))
                D = Poly.sym(at)
                rm.rel = ('prefix', D)
            return rm
        if a.has_const() and b.has_const():
            try:
                ca, cb = a.c, b.c
                r = {ast.Eq: lambda: ca == cb, ast.NotEq: lambda: ca != cb,
                     ast.Lt: lambda: ca < cb, ast.LtE: lambda: ca <= cb,
                     ast.Gt: lambda: ca > cb, ast.GtE: lambda: ca >= cb}[
                    type(op)]()
                return BOOL(bool(r))
            except Exception:
                return BOOL()
        if a.k in ('int', 'bool') and b.k in ('int', 'bool') and \
                a.p is not None and b.p is not None:
            d = a.p - b.p
            c = d.const_value()
            if c is not None:
                r = {ast.Eq: c == 0, ast.NotEq: c != 0, ast.Lt: c < 0,
                     ast.LtE: c <= 0, ast.Gt: c > 0, ast.GtE: c >= 0}[type(op)]
                return BOOL(bool(r))
            lbs = self.I.opts.get('lower_bounds')
            lo = lower_bound(d, lbs)
            hi = lower_bound(-d, lbs)
            if lo is not None:        # d >= lo
                if lo > 0:
                    r = {ast.Eq: False, ast.NotEq: True, ast.Lt: False,
                         ast.LtE: False, ast.Gt: True, ast.GtE: True}
                    return BOOL(r[type(op)])
                if lo == 0 and isinstance(op, (ast.GtE, ast.Lt)):
                    return BOOL(isinstance(op, ast.GtE))
            if hi is not None:        # -d >= hi  <=> d <= -hi
                if hi > 0:
                    r = {ast.Eq: False, ast.NotEq: True, ast.Lt: True,
                         ast.LtE: True, ast.Gt: False, ast.GtE: False}
                    return BOOL(r[type(op)])
                if hi == 0 and isinstance(op, (ast.LtE, ast.Gt)):
                    return BOOL(isinstance(op, ast.LtE))
            return BOOL()
        if a.k == 'str' and b.k == 'str':
            return BOOL()
        if a.k in ('int', 'float') and b.k in ('int', 'float'):
            self.unit_cmp(a, b, node)
        return BOOL()

    def unit_cmp(self, a, b, node):
        ua, ub = a.unit, b.unit
        if a.has_const() or b.has_const():
            # a quantity that scales with the data against a non-zero literal:
            # an absolute threshold (collected only by the properties whose
            # statement says "whatever the scale of the data")
            c_, x_ = (a, b) if a.has_const() else (b, a)

            def _lit(n_):
                if isinstance(n_, ast.Constant):
                    return isinstance(n_.value, (int, float))
                if isinstance(n_, ast.UnaryOp):
                    return _lit(n_.operand)
                if isinstance(n_, ast.BinOp):
                    return _lit(n_.left) and _lit(n_.right)
                return False
            # only a literal written in the comparison itself (a parameter
            # such as the accuracy e is the caller's, documented, choice)
            src_lit = isinstance(node, ast.Compare) and \
                len(node.ops) == 1 and \
                _lit(node.left if a.has_const() else node.comparators[0])
            if src_lit and isinstance(c_.c, (int, float)) and \
                    not isinstance(c_.c, bool) and c_.c != 0 and \
                    x_.k in ('float', 'arr') and x_.unit is not None and \
                    x_.unit != 0 and not x_.has_const():
                self.site('U-abs', node, 'violation',
                          'a quantity of unit sigma^%s (it scales with the '
                          'data) is compared with the absolute literal %r'
                          % (x_.unit, c_.c))
            return
        # power-of-two scale of both sides (stabilised routines): a threshold
        # must be expressed at the scale of the quantity it is compared with
        if a.lg is not None and b.lg is not None:
            if a.lg == b.lg:
                self.site('U-cmp-lg', node, 'ok', '', {'lg': a.lg})
            else:
                self.site('U-cmp-lg', node, 'violation',
                          'a quantity stored at scale 2**(%s) is compared with '
                          'one stored at scale 2**(%s)' % (a.lg, b.lg),
                          {'lhs': a.lg, 'rhs': b.lg})
        if ua is None or ub is None:
            if (ua is not None or ub is not None) and \
                    not (self._plain(a) or self._plain(b)):
                self.site('U-cmp', node, 'unknown', 'one side has no unit',
                          {'lhs': ua, 'rhs': ub})
            return
        if ua == ub:
            self.site('U-cmp', node, 'ok', '', {'unit': ua})
        else:
            self.site('U-cmp', node, 'violation',
                      'comparison of a quantity of unit sigma^%s with one of '
                      'unit sigma^%s' % (ua, ub), {'lhs': ua, 'rhs': ub})

    def join_ifexp(self, a, b, node):
        r = join(a, b)
        # zero-instantiation for ledger symbols is not needed here
        if a.k == 'float' and b.k == 'float':
            if a.note == 'nonzero' and b.note == 'nonzero':
                r.note = 'nonzero'
        return r

    # ------------------------------------------------------------------
    # attributes
    def arr_attr(self, base, attr, node):
        if attr == 'shape':
            if base.dims is None:
                return AV('tuple', elem=INT())
            return TUPLE([INT(d) if d is not None else INT()
                          for d in base.dims])
        if attr == 'T':
            if base.k == 'top':
                # only an array has .T: the result is an array (of unknown
                # shape), in particular it is not None
                return ARR(None, None, taint=base.taint, org=base.org)
            if base.dims is None:
                return base.copy()
            # (src is kept by copy())
            # full reversal of the axes: an orthonormal-columns factor becomes
            # an orthonormal-rows one, for matrices and for 3-axis cores
            o = {'cols': 'rows', 'rows': 'cols', 'cols3': 'rows3',
                 'rows3': 'cols3', 'whitenT': 'whiten',
                 'whiten': 'whitenT'}.get(base.orth, base.orth)
            lay = None
            if base.lay is not None:
                lay = tuple(reversed(base.lay))
            dl = base.delta
            if isinstance(dl, tuple):
                nd_ = len(base.dims)
                dl = tuple(sorted((nd_ - 1 - dl[0], nd_ - 1 - dl[1])))
            return base.copy(dims=tuple(reversed(base.dims)), orth=o, lay=lay,
                             delta=dl, rel=('T', base)
                             if len(base.dims) == 2 else None)
        if attr == 'ndim':
            if base.dims is None:
                return INT()
            return INT(len(base.dims))
        if attr == 'size':
            if base.dims is None or any(d is None for d in base.dims):
                r = INT()
            else:
                p = ONE
                for d in base.dims:
                    p = p * d
                r = INT(p)
            if base.dt == 'b' and base.idx != 'where':
                r.note = 'mask-size'
            return r
        if attr == 'real':
            return base.copy()
        if attr == 'dtype':
            return AV('dtype', ext=base.dt)
        return AV('bmeth', self_=base, ext=attr)

    def ext_attr(self, base, attr, node):
        name = base.ext + '.' + attr
        consts = {'numpy.pi': math.pi, 'numpy.inf': float('inf'),
                  'numpy.e': math.e, 'numpy.nan': float('nan')}
        if name in consts:
            return FLOAT(consts[name])
        if name == 'numpy.newaxis':
            return NONE()
        return EXT(name)

    # ------------------------------------------------------------------
    # indexing
    def index(self, base, idx, node, load=True):
        """numpy indexing  base[idx]  -> abstract array / scalar."""
        if base.dims is None:
            r = ARR(None, base.dt, org=base.org, taint=base.taint)
            if idx.k == 'slice' and base.note in ('distinct', 'stacked'):
                r.note = base.note          # a row subset
            return r
        if base.dt == 'o':
            t = TOP('object-array element')
            t.org = base.org
            return t if load else None
        if base.items is not None and len(base.dims) == 1:
            if idx.k == 'int' and idx.has_const():
                n = len(base.items)
                if -n <= idx.c < n:
                    return base.items[idx.c]
                self.site('S-index', node, 'violation',
                          'index %d out of bounds for axis of size %d'
                          % (idx.c, n))
                return INT()
            if idx.k == 'slice':
                ok = all(x is None or x.k == 'none' or
                         (x.k == 'int' and x.has_const()) for x in idx.items)
                if ok:
                    sl = slice(*(None if (x is None or x.k == 'none') else x.c
                                 for x in idx.items))
                    its = base.items[sl]
                    r = ARR((Poly.const(len(its)),), 'i', org=base.org)
                    r.items = list(its)
                    return r
            if idx.k in ('list', 'tuple') and idx.items is not None and \
                    all(x.k == 'int' and x.has_const() and
                        -len(base.items) <= x.c < len(base.items)
                        for x in idx.items):
                its = [base.items[x.c] for x in idx.items]
                r = ARR((Poly.const(len(its)),), 'i')
                r.items = its
                return r
            if idx.k == 'int':
                from .values import join_all as _ja
                return _ja(base.items) if base.items else INT()
        comps = list(idx.items) if idx.k == 'tuple' and idx.items is not None \
            else [idx]
        dims = list(base.dims)
        lay = list(base.lay) if base.lay is not None else None
        n_consumed = sum(1 for c in comps
                         if c.k not in ('none', 'ellipsis'))
        # expand ellipsis
        if any(c.k == 'ellipsis' for c in comps):
            i = [c.k for c in comps].index('ellipsis')
            fill = len(dims) - n_consumed
            if fill < 0:
                fill = 0
            comps = comps[:i] + [AV('slice', items=[None, None, None])] * fill \
                + comps[i + 1:]
        if n_consumed > len(dims):
            # boolean masks consume several axes; otherwise too many indices
            if not any(c.k == 'arr' and c.dt == 'b' for c in comps):
                self.site('S-index', node, 'violation',
                          'too many indices (%d) for an array of %d axes'
                          % (n_consumed, len(dims)),
                          {'base': _dstr(base.dims)})
            return ARR(None, base.dt)
        if base.note == 'bytes' and isinstance(base.idx, int):
            ax_ = 0
            for c in comps:
                if c.k == 'none':
                    continue
                if ax_ == base.idx and c.k == 'int' and \
                        dims[ax_] is not None and dims[ax_].as_int() != 1:
                    self.site('S-bitwidth', node, 'violation',
                              'one byte is taken from a packbits result whose '
                              'packed axis holds %r bytes: the bits beyond the '
                              'first 8 are dropped' % (dims[ax_],))
                ax_ += 1
        out = []
        out_lay = []
        adv = []          # dims contributed by advanced indices
        adv_pos = None
        ax = 0
        advanced = False
        axmap = {}        # input axis -> output axis (full slices only)
        for c in comps:
            if c.k == 'none':
                out.append(ONE)
                out_lay.append(None)
                continue
            if ax >= len(dims):
                break
            d = dims[ax]
            if c.k in ('int', 'bool') or (c.k == 'float'):
                if c.k == 'int' and c.has_const() and d is not None and \
                        d.as_int() is not None:
                    if not (-d.as_int() <= c.c < d.as_int()):
                        self.site('S-index', node, 'violation',
                                  'index %d out of bounds for axis of size %d'
                                  % (c.c, d.as_int()))
                ax += 1
                continue
            if c.k == 'slice':
                if all(x is None or x.k == 'none' for x in c.items):
                    axmap[ax] = len(out)
                out.append(self.slice_len(c, d, node))
                out_lay.append(lay[ax] if lay is not None and
                               all(x is None or x.k == 'none'
                                   for x in c.items) else None)
                ax += 1
                continue
            if c.k == 'arr' and c.dims is None:
                return ARR(None, base.dt, taint=base.taint)
            if c.k == 'arr' and c.src is not None and \
                    isinstance(c.src, tuple) and c.src[0] == 'rowsof' and \
                    lay is not None and lay[ax] is not None:
                from .layout import layouts_conflict, _same_fac
                if layouts_conflict(lay[ax], c.src[1]):
                    self.site('S-layout', node, 'violation',
                              'rows are selected by an index computed from an '
                              'array whose composite axis is ordered %s '
                              '(fastest first) while this axis is ordered %s'
                              % (list(c.src[1]), list(lay[ax])))
                elif _same_fac(lay[ax], c.src[1]):
                    self.site('S-layout', node, 'ok')
            if c.k == 'arr':
                advanced = True
                if c.dt == 'b':
                    nd = len(c.dims) if c.dims is not None else 1
                    if adv_pos is None:
                        adv_pos = len(out)
                    adv.append((self.I.fresh('mask', node),))
                    ax += nd
                    continue
                if adv_pos is None:
                    adv_pos = len(out)
                adv.append(tuple(c.dims) if c.dims is not None else (None,))
                ax += 1
                continue
            if c.k in ('list', 'tuple'):
                advanced = True
                if adv_pos is None:
                    adv_pos = len(out)
                n = Poly.const(len(c.items)) if c.items is not None else None
                adv.append((n,))
                ax += 1
                continue
            if c.k == 'iter':
                advanced = True
                if adv_pos is None:
                    adv_pos = len(out)
                n = Poly.const(len(c.items)) if c.items is not None else c.p
                adv.append((n,))
                ax += 1
                continue
            # unknown component
            return ARR(None, base.dt, org=base.org, taint=base.taint)
        while ax < len(dims):
            axmap[ax] = len(out)
            out.append(dims[ax])
            out_lay.append(lay[ax] if lay is not None else None)
            ax += 1
        if adv:
            bd = ()
            for a_ in adv:
                bd = self.broadcast(bd, a_, None) or a_
            out = out[:adv_pos] + list(bd) + out[adv_pos:]
            out_lay = None
        if not out and not adv:
            # scalar element
            s = self.I.scalar_of(base)
            if isinstance(base.rel, tuple) and base.rel[0] == 'arange' and \
                    len(comps) == 1 and comps[0].k == 'int' and \
                    comps[0].has_const() and base.dt == 'i':
                # element k of 0..D-1 (k from the end for k < 0)
                k_ = comps[0].c
                s = INT(base.rel[1] + k_) if k_ < 0 else INT(k_)
                s.nonneg = True
            if isinstance(base.rel, tuple) and base.rel[0] == 'gramrow' and \
                    len(comps) == 1 and comps[0] is base.rel[1]:
                s.nonneg = True     # (M @ M[i])[i] = |M[i]|**2
            return s
        r = ARR(tuple(out), base.dt)
        r.nonlin = base.nonlin
        r.lo = base.lo if base.lo is not None else self.lo_of(base)
        r.taint = base.taint
        r.lg = base.lg
        r.unit = base.unit
        r.deg = base.deg
        r.nonneg = base.nonneg
        r.cnt = base.cnt
        if isinstance(base.src, tuple) and base.src and \
                base.src[0] == 'cumsum':
            r.src = base.src
        if base.note in ('distinct', 'stacked') and not adv and comps and \
                comps[0].k == 'slice' and all(
                    c.k == 'slice' and all(x is None or x.k == 'none'
                                           for x in c.items)
                    for c in comps[1:]):
            r.note = base.note       # a row subset keeps the property
        if isinstance(base.delta, tuple) and not adv and \
                base.delta[0] in axmap and base.delta[1] in axmap:
            r.delta = (axmap[base.delta[0]], axmap[base.delta[1]])
        if out_lay is not None and any(x is not None for x in out_lay):
            r.lay = tuple(out_lay)
        if not advanced and len(base.dims) == 1 and len(comps) == 1 and \
                comps[0].k == 'slice':
            lo_, hi_, st_ = comps[0].items
            if (lo_ is None or lo_.k == 'none') and \
                    (hi_ is None or hi_.k == 'none') and st_ is not None \
                    and st_.has_const() and st_.c == -1:
                # the whole vector in reverse order
                r.rel = ('rev', base.rel[1]) if isinstance(base.rel, tuple) \
                    and base.rel[0] == 'rev0' else ('rev', base)
        if not advanced:
            if len(base.dims) >= 2 and len(comps) == 1 and \
                    comps[0].k == 'int':
                r.rel = ('row', base, comps[0])
            elif len(base.dims) == 2 and len(comps) == 2 and \
                    comps[0].k == 'int' and comps[1].k == 'slice' and \
                    all(x is None or x.k == 'none' for x in comps[1].items):
                r.rel = ('row', base, comps[0])
            r.org = base.org
            r.uninit = base.uninit
            # column / row slices keep orthonormal columns / rows
            r.orth = self.orth_slice(base, comps)
            r.src = base.src
        else:
            keep = self._perm_index(comps) or (len(base.dims) == 1 and
                                               len(comps) == 1 and
                                               comps[0].k == 'arr' and
                                               comps[0].idx == 'perm')
            r.orth = self.orth_slice(base, comps) if keep else None
            r.src = base.src if keep else None
            if not keep and len(base.dims) == 1 and base.orth in (
                    'sigma', 'halfvec', 'eig', 'sing', 'invsing'):
                r.orth = base.orth      # any selection of singular values
                r.src = base.src
        if base.idx is not None:
            r.idx = base.idx
        if len(comps) == 1 and comps[0].k == 'arr' and comps[0].dt == 'b' and \
                isinstance(comps[0].rel, tuple) and \
                comps[0].rel[0] == 'nzmask' and comps[0].rel[1] is base and \
                r.note is None:
            r.note = 'nonzero'      # entries selected by their own x > 0 mask
        return r

    def _perm_index(self, comps):
        """Only full slices and at most one permutation index (argsort)."""
        n = 0
        for c in comps:
            if c.k == 'arr' and c.idx == 'perm':
                n += 1
            elif c.k == 'slice' and all(x is None or x.k == 'none'
                                        for x in c.items):
                continue
            else:
                return False
        return n == 1

    def orth_slice(self, base, comps):
        if base.orth is None or base.dims is None:
            return None
        if len(base.dims) == 1 and base.orth in ('sigma', 'halfvec', 'eig',
                                                 'sing', 'invsing'):
            return base.orth            # any sub-vector of singular values
        if len(base.dims) != 2:
            return None
        if self._perm_index(comps):
            return base.orth            # permuting rows / columns
        cs = [c for c in comps if c.k != 'none']
        while len(cs) < 2:
            cs.append(AV('slice', items=[None, None, None]))
        full = [c.k == 'slice' and all(x is None or x.k == 'none'
                                       for x in c.items) for c in cs[:2]]
        sl = [c.k == 'slice' for c in cs[:2]]
        if base.orth == 'cols' and full[0] and sl[1]:
            return 'cols'
        if base.orth == 'rows' and sl[0] and full[1]:
            return 'rows'
        if base.orth in ('sigma',) and all(sl):
            return 'sigma'
        return None

    def slice_len(self, c, d, node):
        lo, hi, st = c.items

        def val(x):
            if x is None or x.k == 'none':
                return 'none'
            if x.k in ('int', 'bool') and x.p is not None:
                return x.p
            return None
        lo, hi, st = val(lo), val(hi), val(st)
        if st is None or lo is None or hi is None:
            return None
        step = 1 if st == 'none' else st.as_int()
        if step is None:
            return None
        if lo == 'none' and hi == 'none':
            if step in (1, -1):
                return d
            if d is None:
                return None
            s = abs(step)
            return _ceildiv(d, s)
        if d is None:
            if step == 1 and lo != 'none' and hi != 'none' and \
                    (hi - lo).as_int() is not None:
                return None
            return None
        if step < 0:
            # reversed slices: [::-1] handled above; [a:b:-1] length a-b
            if lo != 'none' and hi != 'none':
                return _ceildiv(lo - hi, -step)
            if lo == 'none' and hi != 'none':
                hi_ = hi if (hi.as_int() is None or hi.as_int() >= 0) else d + hi
                return _ceildiv(d - 1 - hi_, -step)
            if lo != 'none' and hi == 'none':
                lo_ = lo if (lo.as_int() is None or lo.as_int() >= 0) else d + lo
                return _ceildiv(lo_ + 1, -step)
            return None

        def norm(x, default):
            if x == 'none':
                return default, True
            ci = x.as_int()
            if ci is not None and ci < 0:
                return d + x, True
            return x, ci is not None
        lo_, lo_c = norm(lo, Poly.const(0))
        hi_, hi_c = norm(hi, d)
        # clip against the axis when decidable
        dc = d.as_int()
        if dc is not None and hi_.as_int() is not None:
            hi_ = Poly.const(min(max(hi_.as_int(), 0), dc))
        elif hi != 'none' and not same(hi_, d) and \
                not (hi.as_int() is not None and hi.as_int() < 0):
            hi_ = pmin(hi_, d)
        if dc is not None and lo_.as_int() is not None:
            lo_ = Poly.const(min(max(lo_.as_int(), 0), dc))
        ln = hi_ - lo_
        if ln.as_int() is not None and ln.as_int() < 0:
            ln = Poly.const(0)
        if step != 1:
            return _ceildiv(ln, step)
        return ln

    def check_store(self, base, region, v, target, st):
        """x[idx] = v : the value must broadcast into the selected region."""
        if region is None:
            return
        # kind: a float stored into an integer array is truncated silently
        if base.k == 'arr' and base.dt == 'i' and (
                (v.k == 'float') or (v.k == 'arr' and v.dt == 'f')):
            self.site('S-kind', st, 'violation',
                      'a float value is stored into an integer array: NumPy '
                      'truncates it silently')
        elif base.k == 'arr' and base.dt in ('i', 'f') and \
                v.k in ('int', 'float', 'bool', 'arr'):
            self.site('S-kind', st, 'ok')
        if region.k != 'arr':
            # scalar slot
            if v.k == 'arr' and v.dims is not None and len(v.dims) >= 1:
                self.site('S-slot', st, 'violation',
                          'array of %d axes (%s) stored into a scalar slot; '
                          'the installed NumPy raises ValueError'
                          % (len(v.dims), _dstr(v.dims)))
            elif v.k in ('int', 'float', 'bool') or \
                    (v.k == 'arr' and v.dims is not None):
                self.site('S-slot', st, 'ok')
            return
        rd = region.dims
        if v.k in ('int', 'float', 'bool'):
            self.site('S-store', st, 'ok')
            return
        if v.k in ('list', 'tuple') and v.items is not None:
            vd = (Poly.const(len(v.items)),)
        elif v.k == 'arr':
            vd = v.dims
        else:
            return
        if rd is None or vd is None:
            self.site('S-store', st, 'unknown', 'not typed')
            return
        if len(vd) > len(rd):
            extra = vd[:len(vd) - len(rd)]
            if any(e is not None and e.as_int() != 1 and
                   (e.as_int() is not None or e.all_free()) for e in extra):
                self.site('S-store', st, 'violation',
                          'value %s does not fit the region %s'
                          % (_dstr(vd), _dstr(rd)))
                return
            vd = vd[len(vd) - len(rd):]
        status, detail = 'ok', ''
        for x, y in zip(reversed(rd), reversed(vd)):
            if x is None or y is None:
                status = 'unknown' if status == 'ok' else status
                continue
            if same(x, y) or y.as_int() == 1:
                continue
            if definitely_differ(x, y):
                status = 'violation'
                detail = 'value %s does not fit the region %s' % (
                    _dstr(vd), _dstr(rd))
                break
            status = 'unknown' if status == 'ok' else status
        self.site('S-store', st, status, detail,
                  {'region': _dstr(rd), 'value': _dstr(vd)})


# ---------------------------------------------------------------------------
def _ceildiv(p, s):
    p = Poly.coerce(p)
    if s == 1:
        return p
    c = p.as_int()
    if c is not None:
        return Poly.const(-((-c) // s))
    q = (p + (s - 1))
    ex = q.div_exact(Poly.const(s))
    return fn_atom('floordiv', q, Poly.const(s))


def _dstr(dims):
    if dims is None:
        return '?'
    return '[' + ', '.join('?' if d is None else repr(d) for d in dims) + ']'


def _dadd(a, b, sign):
    out = dict(a)
    for k, v in b.items():
        out[k] = out.get(k, 0) + sign * v
    return {k: v for k, v in out.items() if v != 0}


def _poly_to_lin(p):
    c = Fraction(0)
    t = {}
    for m, coef in p.t.items():
        if m == ():
            c += coef
        elif len(m) == 1 and m[0][1] == 1:
            t[m[0][0]] = coef
        else:
            return None
    return Lin(c, t)


_FLIP_OP = {ast.Lt: ast.Gt, ast.Gt: ast.Lt, ast.LtE: ast.GtE, ast.GtE: ast.LtE,
            ast.Eq: ast.Eq, ast.NotEq: ast.NotEq}
_PARSE_CACHE = {}


def _parse_expr(txt):
    if txt not in _PARSE_CACHE:
        try:
            _PARSE_CACHE[txt] = ast.parse(txt, mode='eval').body
        except SyntaxError:
            _PARSE_CACHE[txt] = None
    return _PARSE_CACHE[txt]


def _strip_abs(x):
    if isinstance(x, ast.Call) and len(x.args) == 1 and not x.keywords:
        f = x.func
        name = f.id if isinstance(f, ast.Name) else (
            f.attr if isinstance(f, ast.Attribute) else None)
        if name in ('abs', 'fabs', 'absolute'):
            return x.args[0], True
    return x, False


def _is_zero(x):
    return isinstance(x, ast.Constant) and isinstance(x.value, (int, float)) \
        and x.value == 0


def _guards(fact, pol, den_src):
    """Does the path fact (test source, polarity) guarantee den_src != 0 ?

    Decided on the parsed comparison, in either spelling (``d > c`` and
    ``c < d`` are the same guard): with the denominator d (possibly inside
    abs) on one side,  d > c / d != 0  true, or  d <= c / d < c / d == 0
    false, exclude d == 0 (thresholds c are taken as non-negative)."""
    t = _parse_expr(fact)
    d = _parse_expr(den_src)
    if t is None or d is None:
        return False
    if isinstance(t, ast.UnaryOp) and isinstance(t.op, ast.Not):
        return _guards(ast.unparse(t.operand), not pol, den_src)
    if not (isinstance(t, ast.Compare) and len(t.ops) == 1):
        return False
    dd = ast.dump(d)
    left, right = t.left, t.comparators[0]
    op = type(t.ops[0])
    l0, labs = _strip_abs(left)
    r0, rabs = _strip_abs(right)
    if ast.dump(l0) == dd or ast.dump(left) == dd:
        other, isabs = right, labs and ast.dump(left) != dd
    elif ast.dump(r0) == dd or ast.dump(right) == dd:
        other, isabs = left, rabs and ast.dump(right) != dd
        op = _FLIP_OP.get(op)
    else:
        return False
    if op is None:
        return False
    # now the fact reads  [abs](d) <op> other
    if pol:
        if op is ast.Gt:
            return True
        if op is ast.NotEq and _is_zero(other):
            return True
        return False
    if op in (ast.Lt, ast.LtE) and isabs:
        return True
    if op is ast.LtE:
        return True
    if op is ast.Eq and _is_zero(other):
        return True
    return False
