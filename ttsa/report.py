"""Obligation bookkeeping, known findings, evidence and exit-code discipline."""
import json
import os
import re
import time

VERIF_DIR = os.path.dirname(os.path.dirname(os.path.abspath(__file__)))
EVIDENCE_DIR = os.path.join(VERIF_DIR, 'evidence')
REPLAY_DIR = os.path.join(EVIDENCE_DIR, 'replay')
KNOWN_FILE = os.path.join(VERIF_DIR, 'known_findings.json')


class Obligation:
    """One rule instance: a construct of the source + the rule applied."""

    def __init__(self, rule, where, construct, status, detail='', line=None,
                 file=None, facts=None):
        self.rule = rule            # e.g. 'A-mut'
        self.where = where          # 'module.function'
        self.construct = construct  # normalised source text / description
        self.status = status        # 'ok' | 'violation' | 'unknown'
        self.detail = detail
        self.line = line
        self.file = file
        self.facts = facts or {}

    def key(self):
        return (self.rule, self.where, self.construct)

    def to_json(self):
        d = {'rule': self.rule, 'where': self.where,
             'construct': self.construct, 'status': self.status}
        if self.detail:
            d['detail'] = self.detail
        if self.line is not None:
            d['line'] = self.line
        if self.file:
            d['file'] = self.file
        if self.facts:
            d['facts'] = {k: str(v) for k, v in self.facts.items()}
        return d


class Report:
    def __init__(self, prop_id, tier, seed=0):
        self.prop_id = prop_id
        self.tier = tier
        self.seed = seed
        self.t0 = time.time()
        self.obls = {}          # key -> Obligation (worst status wins)
        self.floors = []        # (rule, expected_min, description)
        self.notes = []
        self.assumptions = []
        self.trusted = []
        self.explanation = ''
        self.errors = []        # analysis errors (exit 2)
        self.units = {}

    # ------------------------------------------------------------------
    def add(self, rule, where, construct, status, detail='', line=None,
            file=None, facts=None):
        construct = re.sub(r'\s+', ' ', str(construct)).strip()
        ob = Obligation(rule, where, construct, status, detail, line, file,
                        facts)
        k = ob.key()
        old = self.obls.get(k)
        # a site typed in one analysed context and not in another counts as
        # decided there; a violation in any context wins
        rank = {'unknown': 0, 'ok': 1, 'violation': 2}
        if old is None or rank[status] > rank[old.status]:
            self.obls[k] = ob
        return ob

    def ok(self, rule, where, construct, **kw):
        return self.add(rule, where, construct, 'ok', **kw)

    def violation(self, rule, where, construct, detail='', **kw):
        return self.add(rule, where, construct, 'violation', detail, **kw)

    def unknown(self, rule, where, construct, detail='', **kw):
        return self.add(rule, where, construct, 'unknown', detail, **kw)

    def floor(self, rule, minimum, description=''):
        self.floors.append((rule, minimum, description))

    def error(self, msg):
        self.errors.append(msg)

    def count(self, rule=None, status=None, where=None):
        n = 0
        for ob in self.obls.values():
            if rule is not None and not _rule_match(ob.rule, rule):
                continue
            if status is not None and ob.status != status:
                continue
            if where is not None and ob.where != where:
                continue
            n += 1
        return n

    # ------------------------------------------------------------------
    def finish(self, write_evidence=True, quiet=False):
        """Print results, write evidence, return the exit code."""
        known = _load_known()
        for rule, minimum, desc in self.floors:
            have = self.count(rule=rule, status='ok') + \
                self.count(rule=rule, status='violation')
            if have < minimum:
                self.errors.append(
                    'floor not met for rule %s: %d decided instances < %d '
                    'confirmed by reading (%s)' % (rule, have, minimum, desc))
                und = [o for o in self.obls.values()
                       if _rule_match(o.rule, rule) and o.status == 'unknown']
                for o in sorted(und, key=lambda o: o.key())[:4]:
                    self.errors.append(
                        '  undecided %s:%s [%s] %s :: %s -- %s'
                        % (o.file or '?', o.line, o.rule, o.where,
                           (o.construct or '')[:120], (o.detail or '')[:200]))

        viols = [o for o in self.obls.values() if o.status == 'violation']
        viols.sort(key=lambda o: o.key())
        listed, unlisted = [], []
        for v in viols:
            ent = _match_known(known, self.prop_id, v)
            (listed if ent else unlisted).append((v, ent))

        wall = time.time() - self.t0
        if write_evidence:
            self._write_evidence(wall, len(unlisted), listed)

        if self.errors:
            for e in self.errors:
                print('ANALYSIS-ERROR property=%s %s' % (self.prop_id, e))
            if not unlisted:
                return 2

        if not quiet:
            by_rule = {}
            for o in self.obls.values():
                r = by_rule.setdefault(o.rule, [0, 0, 0])
                r[{'ok': 0, 'unknown': 1, 'violation': 2}[o.status]] += 1
            for rule in sorted(by_rule):
                a, b, c = by_rule[rule]
                print('rule %-14s ok=%-3d unknown=%-3d violation=%d'
                      % (rule, a, b, c))
        for v, ent in listed:
            print('KNOWN-FINDING: property=%s %s %s %s'
                  % (self.prop_id, v.rule, v.where, ent.get('what', v.detail)))
        if unlisted:
            os.makedirs(REPLAY_DIR, exist_ok=True)
            for n, (v, _) in enumerate(unlisted):
                path = os.path.join(REPLAY_DIR, '%s-%d.json' % (self.prop_id, n))
                with open(path, 'w') as fh:
                    json.dump(v.to_json(), fh, indent=1)
                print('%s:%s: [%s] %s :: %s -- %s'
                      % (v.file or '?', v.line, v.rule, v.where, v.construct,
                         v.detail))
                print('VIOLATION property=%s replay=%s' % (self.prop_id, path))
            return 1
        if not quiet:
            print('OK property=%s tier=%s obligations=%d wall=%.2fs'
                  % (self.prop_id, self.tier, len(self.obls), wall))
        return 0

    # ------------------------------------------------------------------
    def _write_evidence(self, wall, n_viol, listed):
        os.makedirs(EVIDENCE_DIR, exist_ok=True)
        obls = sorted(self.obls.values(), key=lambda o: o.key())
        decided = [o for o in obls if o.status in ('ok', 'violation')]
        discharged = [o for o in obls if o.status == 'ok']
        distinct = {(o.rule, o.where) for o in decided}
        samples = []
        seen_rules = set()
        for o in obls:
            if o.rule not in seen_rules or len(samples) < 12:
                if len(samples) < 40:
                    samples.append(o.to_json())
                seen_rules.add(o.rule)
        by_rule = {}
        for o in obls:
            d = by_rule.setdefault(o.rule, {'ok': 0, 'unknown': 0,
                                            'violation': 0})
            d[o.status] += 1
        ev = {
            'property_id': self.prop_id,
            'tier': self.tier,
            'seed': int(self.seed),
            'level': 'other',
            'coverage': {
                'explanation': self.explanation,
                'obligations': len(obls),
                'discharged': len(discharged),
                'evaluations': max(1, len(obls)),
                'distinct_nontrivial': max(len(distinct), 0),
                'rule': 'one obligation per (rule, function, construct) '
                        'generated from the current source of /repo/teneva; '
                        'distinct_nontrivial counts distinct (rule, function) '
                        'pairs whose facts were fully known (not Top)',
                'samples': samples,
                'by_rule': by_rule,
                'unknown_sites': len(obls) - len(decided),
                'known_findings_matched': [
                    {'rule': v.rule, 'where': v.where,
                     'construct': v.construct} for v, _ in listed],
                'floors': [{'rule': r, 'min': m, 'what': d}
                           for r, m, d in self.floors],
                'units_analysed': self.units,
                'checker_cmd': '/venv/bin/python -m ttsa check %s --tier %s'
                               % (self.prop_id, self.tier),
                'trusted_base': self.trusted,
                'notes': self.notes,
                'analysis_errors': self.errors,
            },
            'assumptions': self.assumptions,
            'wall_s': round(wall, 3),
            'violations': n_viol,
        }
        path = os.path.join(EVIDENCE_DIR, '%s.json' % self.prop_id)
        with open(path, 'w') as fh:
            json.dump(ev, fh, indent=1, default=str)


def _rule_match(rule, pat):
    if '|' in pat:
        return any(_rule_match(rule, p) for p in pat.split('|'))
    if pat.endswith('*'):
        return rule.startswith(pat[:-1])
    return rule == pat


def _load_known():
    if not os.path.exists(KNOWN_FILE):
        return []
    with open(KNOWN_FILE) as fh:
        data = json.load(fh)
    return data.get('findings', [])


def _match_known(known, prop_id, v):
    for ent in known:
        if ent.get('status', 'open') != 'open':
            continue        # 'fixed' entries suppress nothing
        if ent.get('property') != prop_id:
            continue
        if ent.get('rule') != v.rule or ent.get('where') != v.where:
            continue
        pat = ent.get('construct_contains')
        if pat and pat not in v.construct:
            continue
        return ent
    return None
