"""Abstract arguments (the precondition table PRE-* of DESIGN.md section 3).

Builders for the abstract values bound to parameters of an analysed entry
point.  Sizes are *free symbols* (strings): independent positive integers.
Sharing a symbol between two arguments encodes a documented relation (two
operands of ``add`` have the same mode sizes).
"""
from .poly import Poly, ONE
from .values import AV, TOP, NONE, BOOL, INT, FLOAT, STR, ARR, LIST, TUPLE, \
    DICT, GEN, from_const

PRECONDITIONS = {
    'PRE-TT': 'a parameter documented as TT-tensor is a list of d float '
              'ndarrays Y[k]:[a(k),n(k),a(k+1)], a(0)=a(d)=1, sizes >= 1, no '
              'relation between different size symbols',
    'PRE-D': 'the number of cores d is instantiated to 2, 3 (quick) and 4, 5 (thorough) (loops over '
             'cores are unrolled); every mode size, rank and sample count is '
             'symbolic',
    'PRE-N2': 'Chebyshev / uniform grid sizes n_k >= 2',
    'PRE-DOC': 'undocumented parameters keep their defaults at public entry '
               'points; documented flags are enumerated over the literals '
               'they are compared with',
    'PRE-IDX': 'index batches are int arrays [m, d]; single multi-indices [d]',
    'PRE-NUM': 'number operand = python int/float as tested by _is_num',
}


def sym(name):
    return Poly.sym(name)


def tt(name, d, nsym=None, rsym=None, label=True, dt='f'):
    """TT-tensor argument: list of d cores with symbolic sizes.

    nsym: prefix for mode sizes (shared between arguments when equal);
    rsym: prefix for ranks."""
    nsym = nsym or (name + '.n')
    rsym = rsym or (name + '.r')
    cores = []
    for k in range(d):
        r0 = ONE if k == 0 else sym('%s%d' % (rsym, k))
        r1 = ONE if k == d - 1 else sym('%s%d' % (rsym, k + 1))
        n = sym('%s%d' % (nsym, k))
        c = ARR((r0, n, r1), dt)
        from .poly import Lin as _Lin
        c.lg = _Lin(0)           # stored value = true value * 2**0
        c.cnt = (ONE, ONE)
        c.note = 'input'         # arbitrary caller data (survives copies)
        if label:
            c.org = frozenset([('E', name, k)])
        cores.append(c)
    lst = LIST(cores)
    if label:
        lst.label = ('P', name)
    return lst


def arr(name, dims, dt='f', label=True, **kw):
    a = ARR(tuple(sym(x) if isinstance(x, str) else x for x in dims), dt, **kw)
    if label:
        a.org = frozenset([('P', name)])
    return a


def shape_list(name, d, prefix=None, as_array=False, label=True):
    prefix = prefix or (name + '.')
    items = [INT(sym('%s%d' % (prefix, k))) for k in range(d)]
    lst = LIST(items)
    if label:
        lst.label = ('P', name)
    return lst


def seed():
    """A seed argument: int | None | Generator (provenance 'param')."""
    v = GEN('param')
    v.maybe_none = True
    return v


def num(name=None, **kw):
    f = FLOAT(**kw)
    if name:
        f.deg = {name: 1}
    return f


def callback():
    return TOP('callback')


def const(c):
    return from_const(c)


# ---------------------------------------------------------------------------
# Entry-point table: qualname -> list of variants; a variant maps parameter
# -> spec string (mini language below) or a literal wrapped as ('lit', x).
#
#   tt / tt:n      TT-tensor with own / shared ('n') mode-size symbols
#   tt2q           QTT-tensor: 2*d cores of mode size 2
#   ttlist         list of two TT-tensors with shared mode sizes
#   ttlist1        list of ONE TT-tensor
#   i[d] I[m,d] f[m] f[m,d] f[m,n] ...   int / float arrays (names = symbols,
#                  'd' = the concrete number of cores)
#   dense          float array [n0, ..., n_{d-1}]
#   shape          python list of d symbolic ints;  shapearr: int array
#   num num:c int:k   number operands (float with degree symbol / int symbol)
#   seed cb none T F  seed-like / callback / None / True / False
#   dict           fresh caller dictionary (labelled)
def L(x):
    return ('lit', x)


TT_UN = dict(Y='tt')
ENTRY = {
    'act_many.add_many': [dict(Y_many='ttlist'),
                          dict(Y_many='ttlist', e='rel', r='int:rmax'),
                          # the periodic rounding fires at the last summand
                          dict(Y_many='ttlist', e='rel', r='int:rmax',
                               trunc_freq=L(1)),
                          dict(Y_many='ttlist1')],
    'act_many.outer_many': [dict(Y_many='ttlist'),
                            # a list of one tensor: the result is still new
                            dict(Y_many='ttlist1')],
    'act_one.copy': [dict(Y='tt'), dict(Y='f[m,n]'), dict(Y='num')],
    'act_one.interface': [dict(Y='tt'),
                          dict(Y='tt', i='i[d]', ltr=L(True), norm=L(None)),
                          dict(Y='tt', P='plist', norm=L('natural')),
                          dict(Y='tt', P='plist', i='i[d]', ltr=L(True)),
                          dict(Y='tt', norm=L('natural')),
                          dict(Y='tt', norm=L('natural'), ltr=L(True))],
    'act_one.get': [dict(Y='tt', i='i[d]'), dict(Y='tt', i='I[m,d]')],
    'act_one.get_and_grad': [dict(Y='tt', i='i[d]')],
    'act_one.get_many': [dict(Y='tt', I='I[m,d]')],
    'act_one.getter': [dict(Y='tt')],
    'act_one.mean': [dict(Y='tt'), dict(Y='tt', P='plist')],
    'act_one.norm': [dict(Y='tt'), dict(Y='tt', use_stab=L(True))],
    'act_one.qtt_to_tt': [dict(Y='tt2q', q=L(2))],
    'act_one.sum': [dict(Y='tt')],
    'act_one.tt_to_qtt': [dict(Y='tt')],
    'act_two.accuracy': [dict(Y1='tt:n', Y2='tt:n'),
                         dict(Y1='f[m,n]', Y2='f[m,n]')],
    'act_two.add': [dict(Y1='tt:n', Y2='tt:n'), dict(Y1='tt:n', Y2='num:c'),
                    dict(Y1='num:c', Y2='tt:n'),
                    dict(Y1='tti:n', Y2='tt:n'), dict(Y1='tti:n', Y2='num:c')],
    'act_two.mul': [dict(Y1='tt:n', Y2='tt:n'), dict(Y1='tt:n', Y2='num:c'),
                    dict(Y1='num:c', Y2='tt:n')],
    'act_two.mul_scalar': [dict(Y1='tt:n', Y2='tt:n'),
                           dict(Y1='tt:n', Y2='tt:n', use_stab=L(True))],
    'act_two.outer': [dict(Y1='tt', Y2='tt')],
    'act_two.sub': [dict(Y1='tt:n', Y2='tt:n'), dict(Y1='tt:n', Y2='num:c'),
                    dict(Y1='num:c', Y2='tt:n'),
                    dict(Y1='tti:n', Y2='tt:n')],
    'als.als': [dict(I_trn='I[m,d]', y_trn='f[m]', Y0='tt', info='dict'),
                dict(I_trn='I[m,d]', y_trn='f[m]', Y0='tt', w='f[m]',
                     I_vld='I[mv,d]', y_vld='f[mv]', cb='cb'),
                dict(I_trn='I[m,d]', y_trn='f[m]', Y0='tt', r='int:rmax',
                     use_stab=L(False)),
                dict(I_trn='I[m,d]', y_trn='f[m]', Y0='tt', r='int:rmax',
                     allow_swap=L(True), I_vld='I[mv,d]', y_vld='f[mv]'),
                dict(I_trn='I[m,d]', y_trn='f[m]', Y0='tt',
                     update_sol=L(True), allow_skip_cores=L(True))],
    'als_func.als_func': [dict(X_trn='f[m,d]', y_trn='f[m]', A0='tt',
                               info='dict'),
                          dict(X_trn='f[m,d]', y_trn='f[m]', A0='tt',
                               X_vld='f[mv,d]', y_vld='f[mv]',
                               n_max='int:nmax'),
                          dict(X_trn='f[m,d]', y_trn='f[m]', A0='tt',
                               fh='cb', update_sol=L(True)),
                          dict(X_trn='f[m,d]', y_trn='f[m]', A0='tt',
                               lamb=L(None))],
    'anova.anova': [dict(I_trn='I[m,d]', y_trn='f[m]', seed='seed'),
                    dict(I_trn='I[m,d]', y_trn='f[m]', order=L(2),
                         r='int:r', seed='seed')],
    'anova_func.anova_func': [dict(X_trn='f[m,d]', y_trn='f[m]', n='int:n')],
    'core.core_dot': [dict(G='f[r1,n,r2]', R='f[r2,r3]'),
                      dict(G='f[r1,n,r2]', R='f[r0,r1]', ltr=L(False))],
    'core.core_dot_inv': [dict(G='f[r1,n,r2]', R='f[r2,r2]'),
                          dict(G='f[r1,n,r2]', R='f[r1,r1]', ltr=L(False))],
    'core.core_dot_maxvol': [dict(G='f[r1,n,r2]', R='f[r2,r3]'),
                             dict(G='f[r1,n,r2]', R='f[r0,r1]', ltr=L(False)),
                             dict(G='f[r1,n,r2]', R='f[r2,r3]', ind='i[k]')],
    'core.core_qr_rand': [dict(G='f[r1,n,r2]', m='int:m', seed='seed'),
                          dict(G='f[r1,n,r2]', m='int:m', ltr=L(False),
                               seed='seed')],
    'core.core_qtt_to_tt': [dict(Q_list='corelist')],
    'core.core_stab': [dict(G='f[r1,n,r2]')],
    'core.core_tt_to_qtt': [dict(G='f[r1,n,r2]')],
    'cross.cross': [dict(f='cb', Y0='tt', m='int:mmax', info='dict'),
                    dict(f='cb', Y0='tt', e='num', nswp='int:nswp',
                         cache='dict', info='dict', cb='cb',
                         I_vld='I[mv,d]', y_vld='f[mv]', e_vld='num'),
                    dict(f='cb', Y0='tt', nswp='int:nswp', dr_min=L(0),
                         dr_max=L(0))],
    'cross_act.cross_act': [dict(f='cb', X_list='ttlist', Y0='tt:n',
                                 seed='seed')],
    'data.accuracy_on_data': [dict(Y='tt', I_data='I[m,d]', y_data='f[m]'),
                              dict(Y='tt', I_data='I[m,d]', y_data='f[m]',
                                   e_trunc='num')],
    'data.cache_to_data': [dict(cache='dict')],
    'func.func_basis': [dict(X='f[m,d]', m='int:nb'), dict(X='f[m]', m='int:nb')],
    'func.func_diff_matrix': [dict(a='num', b='num', n='int:n'),
                              dict(a='num', b='num', n='int:n', m=L(2)),
                              dict(a='len:L', b='len:L', n='int:n', m=L(3)),
                              dict(a='num', b='num', n='int:n', kind=L('sin'))],
    'func.func_diff_matrix_apply': [dict(A='tt', D='f[n,n]', kind=L('sin'))],
    'func.func_get': [dict(X='f[m,d]', A='tt', a='num', b='num'),
                      dict(X='f[d]', A='tt', a='fvec', b='fvec'),
                      dict(X='f[m,d]', A='tt'),
                      dict(X='f[m,d]', A='tt', z='int:z'),
                      dict(X='f[d]', A='tt', z='int:z')],
    'func.func_gets': [dict(A='tt'), dict(A='tt', m='int:mnew'),
                       dict(A='tt', kind=L('sin'))],
    'func.func_int': [dict(Y='tt'), dict(Y='tt', kind=L('sin'))],
    'func.func_int_general': [dict(Y='tt:n', X='f[nx]', basis_func='cb'),
                              dict(Y='tt:n', X='f[d,nx]', basis_func='cb')],
    'func.func_sum': [dict(A='tt', a='len:L', b='len:L'),
                      dict(A='tt', a='num', b='num'),
                      dict(A='tt', a='fvec', b='fvec'),
                      dict(A='tt', a='num', b='num', kind=L('sin'))],
    'func_full.func_get_full': [dict(X='f[m,d]', A='dense', a='num', b='num')],
    'func_full.func_gets_full': [dict(A='dense', a='num', b='num'),
                                 dict(A='dense', a='num', b='num',
                                      m='int:mnew')],
    'func_full.func_int_full': [dict(Y='dense')],
    'func_full.func_sum_full': [dict(A='dense', a='num', b='num'),
                                dict(A='dense', a='len:L', b='len:L')],
    'grid.grid_flat': [dict(n='shape'), dict(n='int:n')],
    'grid.grid_prep_opt': [dict(opt='num', d=L(3)), dict(opt='fvec'),
                           dict(opt='fvec', reps='int:m'),
                           dict(opt='shape', kind=L(int))],
    'grid.grid_prep_opts': [dict(a='num', b='num', n='int:n', d=L(3)),
                            dict(a='fvec', b='fvec', n='shape'),
                            dict(a='fvec', b='num', n='int:n', reps='int:m')],
    'grid.ind_qtt_to_tt': [dict(I_qtt='I[m,2d]', q=L(2)),
                           dict(I_qtt='i[2d]', q=L(2)),
                           dict(I_qtt='I[m,9d]', q=L(9))],
    'grid.ind_to_poi': [dict(I='i[d]', a='fvec', b='fvec', n='i[d]'),
                        dict(I='I[m,d]', a='num', b='num', n='int:n'),
                        dict(I='i[d]', a='fvec', b='fvec', n='shape',
                             kind=L('cheb')),
                        dict(I='I[m,d]', a='fvec', b='fvec', n='shape',
                             kind=L('cheb'))],
    'grid.ind_tt_to_qtt': [dict(I='I[m,d]', n=L(8)), dict(I='i[d]', n=L(8))],
    'grid.poi_scale': [dict(X='f[d]', a='fvec', b='fvec'),
                       dict(X='f[m,d]', a='num', b='num'),
                       dict(X='f[d]', a='fvec', b='fvec', kind=L('cheb')),
                       dict(X='f[m,d]', a='fvec', b='fvec', kind='pair')],
    'grid.poi_to_ind': [dict(X='f[d]', a='fvec', b='fvec', n='i[d]'),
                        dict(X='f[m,d]', a='num', b='num', n='int:n'),
                        dict(X='f[d]', a='fvec', b='fvec', n='shape',
                             kind=L('cheb')),
                        dict(X='f[m,d]', a='fvec', b='fvec', n='shape',
                             kind=L('cheb'))],
    'matrices.matrix_delta': [dict(q=L(3), i=L(2), j=L(5), v='num:v'),
                              dict(q=L(3), i=L(-1), j=L(-8), v='num:v')],
    'maxvol.maxvol': [dict(A='f[n,r]')],
    'maxvol.maxvol_rect': [dict(A='f[n,r]'),
                           dict(A='f[n,r]', dr_min='int:dr1', dr_max='int:dr2')],
    'optima.optima_qtt': [dict(Y='tt')],
    'optima.optima_tt': [dict(Y='tt'), dict(Y='tti:Y.n')],
    'optima.optima_tt_beam': [dict(Y='tt'), dict(Y='tt', l2r=L(False)),
                              dict(Y='tt', ret_all=L(True))],
    'optima.optima_tt_max': [dict(Y='tt')],
    'optima.optima_tt_maxvol': [dict(Y='tt'), dict(Y='tt', how=L('l2r')),
                                dict(Y='tt', how=L('r2l')),
                                dict(Y='tt', how=L('both'))],
    'optima_func.optima_func_tt_beam': [dict(A='tt'),
                                        dict(A='tt', ret_all=L(True))],
    'props.erank': [dict(Y='tt')],
    'props.ranks': [dict(Y='tt')],
    'props.shape': [dict(Y='tt')],
    'props.size': [dict(Y='tt')],
    'sample.sample': [dict(Y='tt', m='int:m', seed='seed')],
    'sample.sample_square': [dict(Y='tt', m='int:m', seed='seed'),
                             dict(Y='tt', m='int:m', unique=L(False),
                                  seed='seed')],
    'sample.sample_lhs': [dict(n='shape', m='int:m', seed='seed')],
    'sample.sample_rand': [dict(n='shape', m='int:m', seed='seed')],
    'sample.sample_rand_poi': [dict(a='fvec', b='fvec', m='int:m',
                                    seed='seed')],
    'sample.sample_tt': [dict(n='shape', r='int:r', seed='seed'),
                         dict(n='ashape', r='int:r', seed='seed')],
    'sample_func.sample_func': [dict(A='tt', seed='seed'),
                                dict(A='tt', seed='seed',
                                     cores_are_prepared=L(True))],
    'stat.cdf_confidence': [dict(x='f[m]')],
    'stat.cdf_getter': [dict(x='f[m]')],
    'svd.matrix_skeleton': [dict(A='f[m,n]'),
                            dict(A='f[m,n]', give_to=L('l')),
                            dict(A='f[m,n]', give_to=L('r'), rel=L(True),
                                 e='rel', r='int:rmax'),
                            dict(A='f[m,n]', give_to=L('l'), e='abs',
                                 r='int:rmax')],
    'svd.matrix_svd': [dict(A='f[m,n]'),
                       dict(A='f[m,n]', e='abs', r='int:rmax')],
    'svd.svd': [dict(Y_full='dense'),
                dict(Y_full='dense', e='abs', r='int:rmax')],
    'svd.svd_matrix': [dict(Y_full='f[N,N]')],
    'svd.svd_incomplete': [dict(I='I[m,d]', Y='f[m]', idx='i[d+1]',
                                idx_many='i[d]'),
                           dict(I='I[m,d]', Y='f[m]', idx='i[d+1]',
                                idx_many='i[d]', e='abs', r='int:rmax')],
    'tensors.const': [dict(n='shape', v='num:v'),
                      dict(n='shape', v='num:v', I_zero='I[k,d]'),
                      dict(n='shape', v='num:v', I_zero='I[k,d]',
                           i_non_zero='i[d]')],
    'tensors.delta': [dict(n='shape', i='i[d]', v='num:v')],
    'tensors.poly': [dict(n='shape'),
                     dict(n='shape', shift='fvec', power=L(3), scale='num:s'),
                     dict(n='shape', shift='num:sh')],
    'tensors.rand': [dict(n='shape', r='int:r', seed='seed'),
                     dict(n='shape', r='ranks', seed='seed')],
    'tensors.rand_custom': [dict(n='shape', r='int:r', f='cb')],
    'tensors.rand_norm': [dict(n='shape', r='int:r', seed='seed')],
    'tensors.rand_stab': [dict(n='shape', r='int:r', seed='seed'),
                          dict(n='shape', r='ranks', seed='seed')],
    'transformation.full': [dict(Y='tt')],
    'transformation.full_matrix': [dict(Y='ttm4')],
    'transformation.orthogonalize': [dict(Y='tt'), dict(Y='tt', k=L(0)),
                                     dict(Y='tt', k=L(1), use_stab=L(True))],
    'transformation.orthogonalize_left': [dict(Y='tt', i=L(0)),
                                          dict(Y='tt', i=L(0),
                                               inplace=L(True))],
    'transformation.orthogonalize_right': [dict(Y='tt', i=L(1)),
                                           dict(Y='tt', i=L(1),
                                                inplace=L(True))],
    'transformation.truncate': [dict(Y='tt'),
                                dict(Y='tt', e='rel', r='int:rmax',
                                     use_stab=L(True)),
                                dict(Y='tt', e='rel', r='int:rmax'),
                                dict(Y='tt', e='rel', r='int:rmax',
                                     is_eigh=L(False)),
                                dict(Y='tt', is_eigh=L(False)),
                                dict(Y='tt', orth=L(False)),
                                dict(Y='tt', e='rel', r='npint:rmax'),
                                # accuracy given as a 0-d array
                                dict(Y='tt', e='arr0'),
                                dict(Y='tt1', e='rel', r='int:rmax'),
                                dict(Y='tt1', e='rel', r='int:rmax',
                                     is_eigh=L(False))],
    'vectors.vector_delta': [dict(q=L(3), i=L(5), v='num:v'),
                             dict(q=L(3), i=L(-1), v='num:v')],
    'vis.show': [dict(Y='tt')],
    # class API
    'anova.ANOVA.__init__': [dict(I_trn='I[m,d]', y_trn='f[m]', seed='seed'),
                             dict(I_trn='I[m,d]', y_trn='f[m]', order=L(2),
                                  seed='seed')],
    'anova_func.ANOVA_func.__init__': [dict(X_trn='f[m,d]', y_trn='f[m]',
                                            n='int:n')],
}

# correlated case splits (semantic keys, not source text): all tests of the
# function that compare the two integer names / the magnitude of the value
# are decided together under each assumed case
DEFAULT_SPLIT = {'svd.matrix_svd': [('order', ('shape', 0, 0),
                                    ('shape', 0, 1))],
                 'tensors.const': [('magnitude', 'v')],
                 'tensors.delta': [('magnitude', 'v')]}


def build(spec, name, d, label=True):
    """spec string -> abstract value for parameter ``name``."""
    import re
    if isinstance(spec, tuple) and spec and spec[0] == 'lit':
        v = spec[1]
        if v is int:
            return AV('builtin', ext='int')
        if v is float:
            return AV('builtin', ext='float')
        return from_const(v)
    if spec == 'tt':
        return tt(name, d, label=label)
    if spec.startswith('tt:'):
        return tt(name, d, nsym=spec[3:], label=label)
    if spec.startswith('tti:'):
        # a TT-tensor whose cores are stored with an integer dtype
        return tt(name, d, nsym=spec[4:], label=label, dt='i')
    if spec.startswith('ttm'):
        t = tt(name, d, label=label)
        for c in t.items:
            c.dims = (c.dims[0], Poly.const(int(spec[3:])), c.dims[2])
        return t
    if spec == 'tt1':
        # a TT-tensor whose LAST interior bond has rank exactly 1 (an outer
        # product structure); the other bonds stay symbolic
        t = tt(name, d, label=label)
        a, b = t.items[d - 2], t.items[d - 1]
        a.dims = (a.dims[0], a.dims[1], ONE)
        b.dims = (ONE, b.dims[1], b.dims[2])
        return t
    if spec == 'tt2q':
        t = tt(name, 2 * d, label=label)
        for c in t.items:
            c.dims = (c.dims[0], Poly.const(2), c.dims[2])
        return t
    if spec in ('ttlist', 'ttlist1'):
        lst = LIST([tt('%s[%d]' % (name, j), d, nsym='n', label=False)
                    for j in range(2 if spec == 'ttlist' else 1)])
        if label:
            lst.label = ('P', name)
            for j, t in enumerate(lst.items):
                t.label = ('P', name)
                for k, c in enumerate(t.items):
                    c.org = frozenset([('E', name, j, k)])
        return lst
    if spec == 'corelist':
        items = []
        for k in range(3):
            c = ARR((sym('%s.q%d' % (name, k)), Poly.const(2),
                     sym('%s.q%d' % (name, k + 1))), 'f')
            if label:
                c.org = frozenset([('E', name, k)])
            items.append(c)
        lst = LIST(items)
        if label:
            lst.label = ('P', name)
        return lst
    if spec == 'plist':
        items = []
        for k in range(d):
            a = ARR((sym('%s.n%d' % ('Y', k)),), 'f')
            if label:
                a.org = frozenset([('E', name, k)])
            items.append(a)
        lst = LIST(items)
        if label:
            lst.label = ('P', name)
        return lst
    if spec == 'dense':
        return arr(name, ['%s.n%d' % (name, k) for k in range(d)], 'f',
                   label=label)
    if spec == 'shape':
        return shape_list(name, d, prefix=name + '.', label=label)
    if spec == 'ashape':
        # the same mode sizes handed over as an integer ndarray (the
        # documented alternative to a list)
        a = ARR((Poly.const(d),), 'i')
        a.items = [INT(sym('%s.%d' % (name, k))) for k in range(d)]
        if label:
            a.org = frozenset({('P', name)})
        return a
    if spec == 'ranks':
        items = [INT(1)] + [INT(sym('%s.r%d' % (name, k)))
                            for k in range(1, d)] + [INT(1)]
        lst = LIST(items)
        if label:
            lst.label = ('P', name)
        return lst
    if spec == 'fvec':
        return arr(name, [Poly.const(d)], 'f', label=label)
    if spec == 'pair':
        return TUPLE([FLOAT(), FLOAT()])
    if spec == 'num':
        return FLOAT()
    if spec.startswith('len:'):
        from fractions import Fraction as _F
        return FLOAT(deg={spec[4:]: _F(1)})   # a length (box bound)
    if spec == 'rel':
        from fractions import Fraction as _F
        from .poly import Lin as _L
        return FLOAT(unit=_F(0), lg=_L(0))  # relative (dimensionless) accuracy
    if spec == 'abs':
        from fractions import Fraction as _F
        from .poly import Lin as _L
        return FLOAT(unit=_F(1), lg=_L(0))  # absolute accuracy, in data units
    if spec == 'arr0':
        # a number handed over as a 0-d ndarray (np.array(1e-3), the result
        # of np.tensordot of two vectors): a MUTABLE object of the caller
        a0 = ARR((), 'f')
        if label:
            a0.org = frozenset({('P', name)})
        return a0
    if spec.startswith('num:'):
        return num(spec[4:])
    if spec.startswith('int:'):
        v = INT(sym(spec[4:]))
        v.note = 'pyint'
        return v
    if spec.startswith('npint:'):
        # a NumPy integer scalar (np.int64): not an instance of int / float
        v = INT(sym(spec[6:]))
        v.note = 'npint'
        return v
    if spec == 'seed':
        return seed()
    if spec == 'cb':
        return callback()
    if spec == 'none':
        return NONE()
    if spec == 'dict':
        dct = DICT()
        if label:
            dct.label = ('P', name)
        dct.elem = None
        return dct
    m = re.match(r'^([iIf])\[(.*)\]$', spec)
    if m:
        dt = 'i' if m.group(1) in 'iI' else 'f'
        dims = []
        for tok in m.group(2).split(','):
            tok = tok.strip()
            if tok == 'd':
                dims.append(Poly.const(d))
            elif re.match(r'^\d+d$', tok):
                dims.append(Poly.const(int(tok[:-1]) * d))
            elif tok == 'd+1':
                dims.append(Poly.const(d + 1))
            elif tok.isdigit():
                dims.append(Poly.const(int(tok)))
            else:
                dims.append(sym(tok))
        return arr(name, dims, dt, label=label)
    raise ValueError('bad spec %r' % (spec,))


def variants(qualname):
    return ENTRY.get(qualname)


def build_args(variant, d, label=True):
    return {name: build(spec, name, d, label=label)
            for name, spec in variant.items()}


# ---------------------------------------------------------------------------
# Summaries (axioms about teneva helpers whose bodies are checked on their
# own by another property): used instead of inlining.
_mv_counter = [0]


def maxvol_summary(interp, fn, pos, kw, node):
    """utils._maxvol(A, ...) -> (I:[rho] int, B:[n, rho]) with rho a fresh
    *free* symbol: the number of selected rows depends on the data and on the
    rank-growth settings and is not tied to any other size (C08 checks that
    every branch of _maxvol / maxvol / maxvol_rect returns such a pair)."""
    A = pos[0] if pos else kw.get('A')
    _mv_counter[0] += 1
    rho = sym('rho%d' % _mv_counter[0])
    n = None
    if A is not None and A.k == 'arr' and A.dims is not None and \
            len(A.dims) == 2:
        n = A.dims[0]
    return TUPLE([ARR((rho,), 'i'), ARR((n, rho), 'f')])


DEFAULT_SUMMARY = {'utils._maxvol': maxvol_summary}


# Functions in which min / join atoms are expanded when two dims are compared
# (poly.definitely_differ): both orderings of their QR / RQ operands are
# admissible inputs (over-ranked cores are part of the properties' quantifier)
# and they have no hidden ordering precondition.
EXPAND_IN = {'transformation.orthogonalize_left',
             'transformation.orthogonalize_right',
             'transformation.orthogonalize', 'transformation.truncate',
             'svd.svd',
             # the samplers: ranks and mode sizes are free inputs; a carried
             # interface whose bond is "this rank on one path, that rank on
             # another" does not fit the next core
             'sample.sample', 'sample.sample_square'}
