"""Exact multivariate polynomials over opaque atoms (Fraction coefficients).

An *atom* is any hashable object.  By convention

* a ``str`` atom is a **free** input symbol (a mode size, a rank, a sample
  count of an argument).  Free symbols are independent and range over the
  positive integers, so a non-zero polynomial over free symbols is non-zero
  for some admissible input: two dims whose difference is such a polynomial
  *definitely differ* for some input the property quantifies over.
* a ``tuple`` atom is **opaque** (``('min', p, q)``, ``('join', ...)``,
  ``('fresh', site)``, ...): a quantity derived from the inputs in a way the
  analysis does not relate to anything else.  A difference that mentions an
  opaque atom is never a violation (unknown).
"""
from fractions import Fraction


def _is_free(atom):
    return isinstance(atom, str)


class Poly:
    __slots__ = ('t', '_h')

    def __init__(self, terms=None):
        # terms: dict monomial -> Fraction ; monomial: tuple of (atom, exp)
        t = {}
        if terms:
            for m, c in terms.items():
                if c != 0:
                    t[m] = Fraction(c)
        self.t = t
        self._h = None

    # ---- constructors
    @staticmethod
    def const(c):
        return Poly({(): Fraction(c)})

    @staticmethod
    def sym(atom):
        return Poly({((atom, 1),): Fraction(1)})

    @staticmethod
    def coerce(x):
        if isinstance(x, Poly):
            return x
        if isinstance(x, bool):
            return Poly.const(int(x))
        if isinstance(x, (int, Fraction)):
            return Poly.const(x)
        if isinstance(x, float) and x == int(x):
            return Poly.const(int(x))
        raise TypeError('cannot coerce %r to Poly' % (x,))

    # ---- basic queries
    def is_const(self):
        return all(m == () for m in self.t)

    def const_value(self):
        if not self.t:
            return Fraction(0)
        if self.is_const():
            return self.t[()]
        return None

    def as_int(self):
        c = self.const_value()
        if c is not None and c.denominator == 1:
            return int(c)
        return None

    def atoms(self):
        s = set()
        for m in self.t:
            for a, _ in m:
                s.add(a)
        return s

    def all_free(self):
        return all(_is_free(a) for a in self.atoms())

    def is_zero(self):
        return not self.t

    def key(self):
        return tuple(sorted(((_mkey(m), c) for m, c in self.t.items()),
                            key=repr))

    def __hash__(self):
        if self._h is None:
            self._h = hash(frozenset(self.t.items()))
        return self._h

    def __eq__(self, other):
        if not isinstance(other, Poly):
            try:
                other = Poly.coerce(other)
            except TypeError:
                return NotImplemented
        return self.t == other.t

    # ---- arithmetic
    def __add__(self, o):
        o = Poly.coerce(o)
        t = dict(self.t)
        for m, c in o.t.items():
            t[m] = t.get(m, 0) + c
        return Poly(t)

    __radd__ = __add__

    def __neg__(self):
        return Poly({m: -c for m, c in self.t.items()})

    def __sub__(self, o):
        return self + (-Poly.coerce(o))

    def __rsub__(self, o):
        return Poly.coerce(o) - self

    def __mul__(self, o):
        o = Poly.coerce(o)
        t = {}
        for m1, c1 in self.t.items():
            for m2, c2 in o.t.items():
                m = _mmul(m1, m2)
                t[m] = t.get(m, 0) + c1 * c2
        return Poly(t)

    __rmul__ = __mul__

    def __pow__(self, n):
        if isinstance(n, Poly):
            n = n.as_int()
        if not isinstance(n, int) or n < 0:
            raise ValueError('bad power')
        r = Poly.const(1)
        for _ in range(n):
            r = r * self
        return r

    def scale(self, c):
        return Poly({m: v * Fraction(c) for m, v in self.t.items()})

    def div_exact(self, o):
        """Return q with self == q*o, or None when no such polynomial."""
        o = Poly.coerce(o)
        if o.is_zero():
            return None
        c = o.const_value()
        if c is not None:
            return self.scale(1 / c)
        if len(o.t) == 1:
            (m2, c2), = o.t.items()
            t = {}
            for m1, c1 in self.t.items():
                m = _mdiv(m1, m2)
                if m is None:
                    return None
                t[m] = c1 / c2
            return Poly(t)
        # general long division w.r.t. a fixed monomial order
        rem = Poly(self.t)
        q = Poly()
        lead_o = max(o.t, key=_morder)
        steps = 0
        while not rem.is_zero():
            steps += 1
            if steps > 200:
                return None
            lead_r = max(rem.t, key=_morder)
            m = _mdiv(lead_r, lead_o)
            if m is None:
                return None
            term = Poly({m: rem.t[lead_r] / o.t[lead_o]})
            q = q + term
            rem = rem - term * o
        return q

    def subs(self, mapping):
        """Substitute atoms by Poly / numbers."""
        if not mapping:
            return self
        r = Poly()
        for m, c in self.t.items():
            term = Poly.const(c)
            for a, e in m:
                if a in mapping:
                    term = term * (Poly.coerce(mapping[a]) ** e)
                else:
                    term = term * Poly({((a, e),): 1})
            r = r + term
        return r

    # ---- printing
    def __repr__(self):
        if not self.t:
            return '0'
        parts = []
        for m, c in sorted(self.t.items(), key=lambda kv: repr(kv[0])):
            ms = '*'.join(_astr(a) + ('^%d' % e if e != 1 else '')
                          for a, e in m)
            if not ms:
                parts.append(_cstr(c))
            elif c == 1:
                parts.append(ms)
            elif c == -1:
                parts.append('-' + ms)
            else:
                parts.append(_cstr(c) + '*' + ms)
        s = ' + '.join(parts)
        return s.replace('+ -', '- ')


def _cstr(c):
    return str(int(c)) if c.denominator == 1 else str(c)


def _astr(a):
    if isinstance(a, str):
        return a
    if isinstance(a, tuple) and len(a) == 7 and a[0] == 'count':
        return 'count(%s,%s,%s)' % a[1:4]
    if isinstance(a, tuple) and a:
        return '%s(%s)' % (a[0], ','.join(
            (repr(x) if isinstance(x, Poly) else _astr(x)) for x in a[1:]))
    return repr(a)


_AKEY = {}


def _akey(a):
    if isinstance(a, str):
        return a
    try:
        return _AKEY[a]
    except KeyError:
        r = _AKEY[a] = repr(a)
        return r
    except TypeError:
        return repr(a)


_DEPTH = {}
_DEEP = {}
_DEEP_SRC = {}     # ('deep', name, k) -> the atom it stands for
MAX_ATOM_DEPTH = 4


def atom_depth(a):
    if isinstance(a, str):
        return 0
    try:
        return _DEPTH[a]
    except KeyError:
        pass
    d = 0
    if isinstance(a, tuple):
        for x in a[1:]:
            if isinstance(x, Poly):
                for y in x.atoms():
                    d = max(d, atom_depth(y))
            elif isinstance(x, tuple):
                d = max(d, atom_depth(x))
        d += 1
    _DEPTH[a] = d
    return d


def poly_depth(p):
    return max([atom_depth(a) for a in p.atoms()] or [0])


def _mkey(m):
    return tuple((_akey(a), e) for a, e in m)


def _morder(m):
    return (sum(e for _, e in m), _mkey(m))


def _mmul(m1, m2):
    d = dict(m1)
    for a, e in m2:
        d[a] = d.get(a, 0) + e
    return tuple(sorted(((a, e) for a, e in d.items() if e != 0),
                        key=lambda ae: _akey(ae[0])))


def _mdiv(m1, m2):
    d = dict(m1)
    for a, e in m2:
        if d.get(a, 0) < e:
            return None
        d[a] -= e
    return tuple(sorted(((a, e) for a, e in d.items() if e != 0),
                        key=lambda ae: _akey(ae[0])))


# ---------------------------------------------------------------------------
# helpers for dimension reasoning

ONE = Poly.const(1)
ZERO = Poly.const(0)


def fn_atom(name, *args):
    """Opaque function-application atom with canonical arguments."""
    args = tuple(Poly.coerce(a) if not isinstance(a, (str, tuple)) else a
                 for a in args)
    if name in ('min', 'max', 'join'):
        flat = []
        for a in args:
            if isinstance(a, Poly) and len(a.t) == 1:
                (m, c), = a.t.items()
                if c == 1 and len(m) == 1 and m[0][1] == 1 and \
                        isinstance(m[0][0], tuple) and m[0][0][0] == name \
                        and name != 'join':
                    flat.extend(m[0][0][1:])
                    continue
            flat.append(a)
        uniq = []
        for a in flat:
            if a not in uniq:
                uniq.append(a)
        if name != 'join':
            uniq.sort(key=repr)
        if len(uniq) == 1:
            return uniq[0]
        args = tuple(uniq)
    atom = (name,) + args
    if atom_depth(atom) > MAX_ATOM_DEPTH:
        # bound the nesting: hash-cons the deep expression to one opaque symbol
        k = _akey(atom)
        if k not in _DEEP:
            _DEEP[k] = ('deep', name, len(_DEEP))
            _DEEP_SRC[_DEEP[k]] = atom
        return Poly.sym(_DEEP[k])
    return Poly.sym(atom)


# ordering facts valid at the program point being interpreted: list of
# (small, big) polynomials with small <= big (set by the interpreter)
ORDER_FACTS = []


def known_le(a, b):
    """Is a <= b known (syntactically, from bounds or from path facts)?"""
    a, b = Poly.coerce(a), Poly.coerce(b)
    if a == b:
        return True
    lb = lower_bound(b - a)
    if lb is not None and lb >= 0:
        return True
    # strip a common constant term:  x + c <= max(.., x, ..) + c
    ca, cb = a.t.get((), 0), b.t.get((), 0)
    if ca == cb and ca != 0:
        return known_le(a - ca, b - cb)
    if cb > ca and (ca != 0 or cb != 0):
        # a - ca <= b - cb  implies  a <= b  when cb >= ca
        if known_le(a - ca, b - cb):
            return True
    # monotone floor division by the same positive constant
    if _is_fn(a, 'floordiv') and _is_fn(b, 'floordiv'):
        xa, da = _args(a)
        xb, db = _args(b)
        if isinstance(da, Poly) and isinstance(db, Poly) and da == db and \
                da.const_value() is not None and da.const_value() > 0 and \
                isinstance(xa, Poly) and isinstance(xb, Poly):
            return known_le(xa, xb)
    for s, g in ORDER_FACTS:
        # a <= s <= g <= b
        if (a == s or _triv_le(a, s)) and (g == b or _triv_le(g, b)):
            return True
    # a = min(..., b, ...)  or  b = max(..., a, ...)
    if _is_fn(a, 'min') and any(isinstance(x, Poly) and x == b
                                for x in _args(a)):
        return True
    if _is_fn(b, 'max') and any(isinstance(x, Poly) and x == a
                                for x in _args(b)):
        return True
    return False


def _triv_le(a, b):
    lb = lower_bound(b - a)
    return lb is not None and lb >= 0


def _is_fn(p, name):
    if len(p.t) != 1:
        return False
    (m, c), = p.t.items()
    return c == 1 and len(m) == 1 and m[0][1] == 1 and \
        isinstance(m[0][0], tuple) and m[0][0][0] == name


def _args(p):
    (m, c), = p.t.items()
    return m[0][0][1:]


def pmin(a, b):
    a, b = Poly.coerce(a), Poly.coerce(b)
    if a == b:
        return a
    ca, cb = a.const_value(), b.const_value()
    if ca is not None and cb is not None:
        return a if ca <= cb else b
    if known_le(a, b):
        return a
    if known_le(b, a):
        return b
    r = fn_atom('min', a, b)
    return r


def pmax(a, b):
    a, b = Poly.coerce(a), Poly.coerce(b)
    if a == b:
        return a
    ca, cb = a.const_value(), b.const_value()
    if ca is not None and cb is not None:
        return a if ca >= cb else b
    if known_le(a, b):
        return b
    if known_le(b, a):
        return a
    return fn_atom('max', a, b)


def definitely_differ(p, q):
    """True iff p != q for some admissible input.

    * a non-zero difference over free symbols / constants differs for some
      valuation (free symbols are independent positive integers);
    * ``join(a, b, ...)`` takes each alternative on some feasible path and
      ``min / max`` takes each argument for some ordering of the inputs: the
      difference is expanded by substituting one alternative for *every*
      occurrence of the atom (consistent choice) and re-tested;
    * any other opaque atom (fresh data dependent counts, floordiv, ...)
      makes the answer "unknown" (False).
    """
    d = Poly.coerce(p) - Poly.coerce(q)
    if d.is_zero():
        return False
    if _floordiv_pair_differs(d):
        return True
    if not EXPAND[0]:
        # default: only differences over free symbols are violations
        return d.all_free()
    budget = [48]
    return _exists_nonzero(d, budget)


# Expansion of join / min / max atoms is switched on only by targeted rules
# (see engine.Analysis.run(opts={'expand': True})) whose entry functions were
# confirmed by reading to have no hidden ordering precondition.
EXPAND = [False]


def _floordiv_pair_differs(d):
    """x//c - y//c with x - y a non-zero constant |k| < c and x containing a
    free symbol with coefficient +-1: differs for a suitable residue."""
    if len(d.t) != 2:
        return False
    items = list(d.t.items())
    atoms = []
    for m, c in items:
        if len(m) != 1 or m[0][1] != 1 or not isinstance(m[0][0], tuple) \
                or m[0][0][0] != 'floordiv' or abs(c) != 1:
            return False
        atoms.append((m[0][0], c))
    if atoms[0][1] + atoms[1][1] != 0:
        return False
    (a1, _), (a2, _) = atoms
    x, c1 = a1[1], a1[2]
    y, c2 = a2[1], a2[2]
    if not (isinstance(c1, Poly) and isinstance(c2, Poly) and c1 == c2):
        return False
    cc = c1.as_int()
    if cc is None or cc < 2:
        return False
    k = (x - y).const_value() if (x - y).is_const() else None
    if k is None or k == 0 or abs(k) >= cc:
        return False
    unit = any(len(m) == 1 and m[0][1] == 1 and _is_free(m[0][0]) and
               abs(c) == 1 for m, c in x.t.items())
    return unit and x.all_free()


def _exists_nonzero(d, budget):
    if d.is_zero():
        return False
    budget[0] -= 1
    if budget[0] < 0:
        return False
    opaque = [a for a in d.atoms() if not _is_free(a)]
    if not opaque:
        return True
    exp = [a for a in opaque if isinstance(a, tuple) and a and
           a[0] in ('join', 'min', 'max')]
    if not exp or len(exp) != len(opaque):
        return False
    # correlated alternatives: two different join atoms may stem from the
    # same branch decision, so only a single join atom is ever expanded
    joins = [a for a in exp if a[0] == 'join']
    if len(joins) > 1 or len(exp) > 3:
        return False
    # expand the outermost (deepest-nesting) expandable atom first
    a = max(exp, key=atom_depth)
    alts = [x for x in a[1:] if isinstance(x, Poly)]
    for i, alt in enumerate(alts):
        if a[0] in ('min', 'max') and not _feasible(a[0], alt, alts, i):
            continue
        if _exists_nonzero(d.subs({a: alt}), budget):
            return True
    return False


def _feasible(kind, alt, alts, i):
    """Can ``alt`` be the min (max) of ``alts`` for some input?  Refuted only
    when another alternative is provably smaller (larger)."""
    for j, other in enumerate(alts):
        if j == i:
            continue
        diff = (alt - other) if kind == 'min' else (other - alt)
        lb = lower_bound(diff)
        if lb is not None and lb > 0:
            return False
        # refuted by a path fact  other <= alt (min)  /  alt <= other (max)
        if kind == 'min' and known_le(other, alt) and other != alt:
            return False
        if kind == 'max' and known_le(alt, other) and other != alt:
            return False
    return True


def same(p, q):
    return (Poly.coerce(p) - Poly.coerce(q)).is_zero()


def lower_bound(p, lb=None):
    """A sound lower bound of p when every free symbol is >= its bound in
    ``lb`` (default 1) and opaque atoms are >= 0... only computed when all
    non-constant coefficients are >= 0 and no opaque atoms occur."""
    p = Poly.coerce(p)
    lb = lb or LOWER
    total = Fraction(0)
    for m, c in p.t.items():
        if m == ():
            total += c
            continue
        if c < 0:
            return None
        v = Fraction(1)
        for a, e in m:
            if _is_free(a):
                v *= Fraction(lb.get(a, 1)) ** e
                continue
            # min / max / join of sizes: bounded below by the bounds of the
            # alternatives (sizes are >= 1)
            if isinstance(a, tuple) and a and a[0] in ('min', 'max', 'join'):
                subs = [lower_bound(x, lb) for x in a[1:]
                        if isinstance(x, Poly)]
                if len(subs) != len(a) - 1 or any(x is None for x in subs):
                    return None
                b_ = max(subs) if a[0] == 'max' else min(subs)
                if b_ < 0:
                    return None
                v *= Fraction(b_) ** e
                continue
            return None
        total += c * v
    return total


# default lower bounds of free symbols (set per run by the interpreter from
# opts['lower_bounds']; symbols not listed are >= 1)
LOWER = {}


class Lin:
    """Linear form  c0 + sum c_i * atom_i  (used for exponent ledgers)."""
    __slots__ = ('c', 't')

    def __init__(self, c=0, t=None):
        self.c = Fraction(c)
        self.t = {a: Fraction(v) for a, v in (t or {}).items() if v != 0}

    @staticmethod
    def sym(a):
        return Lin(0, {a: 1})

    def __add__(self, o):
        o = o if isinstance(o, Lin) else Lin(o)
        t = dict(self.t)
        for a, v in o.t.items():
            t[a] = t.get(a, 0) + v
        return Lin(self.c + o.c, t)

    __radd__ = __add__

    def __neg__(self):
        return Lin(-self.c, {a: -v for a, v in self.t.items()})

    def __sub__(self, o):
        o = o if isinstance(o, Lin) else Lin(o)
        return self + (-o)

    def scale(self, k):
        k = Fraction(k)
        return Lin(self.c * k, {a: v * k for a, v in self.t.items()})

    def is_zero(self):
        return self.c == 0 and not self.t

    def __eq__(self, o):
        if o is None:
            return False
        if not isinstance(o, Lin):
            try:
                o = Lin(o)
            except (TypeError, ValueError):
                return False
        return self.c == o.c and self.t == o.t

    def __hash__(self):
        return hash((self.c, frozenset(self.t.items())))

    def key(self):
        return (self.c, tuple(sorted(((repr(a), v) for a, v in self.t.items()))))

    def __repr__(self):
        parts = []
        if self.c != 0 or not self.t:
            parts.append(_cstr(self.c))
        for a, v in sorted(self.t.items(), key=lambda kv: repr(kv[0])):
            parts.append(('%s*' % _cstr(v) if v != 1 else '') + _astr(a))
        return ' + '.join(parts).replace('+ -', '- ')


# ---------------------------------------------------------------------------
# Data dependent counts.  ``COUNT_LEN[atom]`` = length of the boolean mask the
# fresh count atom counts the True entries of (0 <= count <= length).


def leaf_atoms(p, acc=None):
    """Atoms that are not operator applications (free symbols, fresh data
    dependent atoms), looking through min / max / join / deep / arithmetic
    atoms."""
    acc = set() if acc is None else acc
    for a in Poly.coerce(p).atoms():
        _leaves(a, acc)
    return acc


_OPS = ('min', 'max', 'join', 'floordiv', 'mod', 'pow2', 'int')


def _leaves(a, acc):
    if isinstance(a, tuple) and a and a[0] == 'deep' and a in _DEEP_SRC:
        _leaves(_DEEP_SRC[a], acc)
    elif isinstance(a, tuple) and a and a[0] in _OPS:
        for x in a[1:]:
            if isinstance(x, Poly):
                leaf_atoms(x, acc)
    else:
        acc.add(a)


def data_dependent(p):
    """Does the value depend on a data dependent count (number of singular
    values below a threshold, number of selected samples, ...)?  Such a value
    takes different values for different admissible inputs of one shape."""
    return any(isinstance(a, tuple) and a and a[0] in ('count', 'where',
                                                      'mask', 'uniq')
               for a in leaf_atoms(p))


def peval(p, val):
    """Value of p (Fraction) under the valuation ``val`` of its leaf atoms;
    min / max / floordiv / mod / pow2 atoms are evaluated, ``join`` atoms and
    unvalued leaves give None."""
    p = Poly.coerce(p)
    tot = Fraction(0)
    for m, c in p.t.items():
        term = Fraction(c)
        for a, e in m:
            v = _aeval(a, val)
            if v is None:
                return None
            term *= v ** e
        tot += term
    return tot


def _aeval(a, val):
    if a in val:
        return Fraction(val[a])
    if isinstance(a, tuple) and a and a[0] == 'deep' and a in _DEEP_SRC:
        return _aeval(_DEEP_SRC[a], val)
    if isinstance(a, tuple) and a and a[0] in ('min', 'max'):
        vs = [peval(x, val) for x in a[1:]]
        if any(v is None for v in vs):
            return None
        return min(vs) if a[0] == 'min' else max(vs)
    if isinstance(a, tuple) and a and a[0] in ('floordiv', 'mod') and \
            len(a) == 3:
        x, y = peval(a[1], val), peval(a[2], val)
        if x is None or y is None or y == 0:
            return None
        q = x // y
        return Fraction(q) if a[0] == 'floordiv' else x - q * y
    if isinstance(a, tuple) and a and a[0] == 'pow2' and len(a) == 2:
        x = peval(a[1], val)
        if x is None or x.denominator != 1 or not (0 <= x <= 62):
            return None
        return Fraction(2 ** int(x))
    return None


def psubst(p, atom, q):
    """p with the leaf ``atom`` replaced by the polynomial q (also inside
    min / max / join atoms)."""
    p = Poly.coerce(p)
    q = Poly.coerce(q)
    out = Poly.const(0)
    for m, c in p.t.items():
        term = Poly.const(c)
        for a, e in m:
            term = term * (_asubst(a, atom, q) ** e)
        out = out + term
    return out


def _asubst(a, atom, q):
    if a == atom:
        return q
    if isinstance(a, tuple) and a and a[0] == 'deep' and a in _DEEP_SRC:
        src = _DEEP_SRC[a]
        acc = set()
        _leaves(src, acc)
        if atom not in acc:
            return Poly.sym(a)
        return _asubst(src, atom, q)
    if isinstance(a, tuple) and a and a[0] in ('min', 'max', 'join'):
        args = [psubst(x, atom, q) if isinstance(x, Poly) else x
                for x in a[1:]]
        return fn_atom(a[0], *args)
    return Poly.sym(a)
