"""Program model of the teneva package built from source text only (ast).

Nothing of teneva is imported or executed.  The model gives:

* ``Program.modules``      every ``*.py`` of the package (parsed)
* ``Program.functions``    every def (module level, methods, nested) by qualname
* ``Program.exports``      the re-export table of ``teneva/__init__.py``
* ``Program.public``       the public API (exported names without ``_`` plus the
                            public methods of exported classes)
* ``resolve_*``            name / call resolution (teneva def or external id)
* ``doc_args``             parser of the docstring ``Args:`` section
"""
import ast
import os
import re
import hashlib


class AnalysisError(Exception):
    """The analysis itself could not be carried out (exit code 2)."""


EXTERNAL_ROOTS = {'numpy', 'scipy', 'opt_einsum', 'time', 'itertools',
                  'functools', 'pickle', 'numba'}


class Function:
    def __init__(self, module, node, qualname, parent=None, cls=None):
        self.module = module
        self.node = node
        self.qualname = qualname          # e.g. 'act_one.get', 'anova.ANOVA.cores'
        self.name = node.name if not isinstance(node, ast.Lambda) else '<lambda>'
        self.parent = parent              # enclosing Function (nested def)
        self.cls = cls                    # ClassInfo for methods
        self.nested = {}
        self.is_property = False
        if isinstance(node, (ast.FunctionDef, ast.AsyncFunctionDef)):
            for dec in node.decorator_list:
                if isinstance(dec, ast.Name) and dec.id == 'property':
                    self.is_property = True
        self._doc = None

    # --- parameters
    @property
    def params(self):
        a = self.node.args
        return [x.arg for x in a.posonlyargs + a.args]

    @property
    def kwonly(self):
        return [x.arg for x in self.node.args.kwonlyargs]

    @property
    def all_params(self):
        return self.params + self.kwonly

    def defaults(self):
        """dict param -> default expression node."""
        a = self.node.args
        pos = a.posonlyargs + a.args
        out = {}
        for p, d in zip(pos[len(pos) - len(a.defaults):], a.defaults):
            out[p.arg] = d
        for p, d in zip(a.kwonlyargs, a.kw_defaults):
            if d is not None:
                out[p.arg] = d
        return out

    @property
    def docstring(self):
        if isinstance(self.node, ast.Lambda):
            return None
        return ast.get_docstring(self.node)

    def doc_args(self):
        """Parse the 'Args:' section: dict name -> (types text, description)."""
        if self._doc is not None:
            return self._doc
        out = {}
        doc = self.docstring or ''
        m = re.search(r'^\s*Args:\s*$', doc, re.M)
        if m:
            body = doc[m.end():]
            stop = re.search(r'^\s*(Returns|Note|Raises|Yields)\s*:\s*$', body,
                             re.M)
            if stop:
                body = body[:stop.start()]
            cur = None
            for line in body.splitlines():
                mm = re.match(r'^\s{0,8}(\w+)\s*\(([^)]*)\)\s*:\s*(.*)$', line)
                if mm and (len(line) - len(line.lstrip())) <= 4:
                    cur = mm.group(1)
                    out[cur] = [mm.group(2), mm.group(3)]
                elif cur is not None:
                    out[cur][1] += ' ' + line.strip()
        self._doc = {k: (v[0], v[1]) for k, v in out.items()}
        return self._doc

    def __repr__(self):
        return '<Function %s>' % self.qualname


class ClassInfo:
    def __init__(self, module, node):
        self.module = module
        self.node = node
        self.name = node.name
        self.qualname = module.name + '.' + node.name
        self.methods = {}


def _fold_module_constants(tree):
    """A module-level name that is bound exactly once, to a literal (a stop
    name, a tolerance, an order letter hoisted out of the functions), is
    replaced by that literal wherever a function reads it and does not shadow
    it.  Every rule then sees the literal, however the constant is spelt."""
    consts = {}
    stores = {}
    for n in ast.walk(tree):
        if isinstance(n, ast.Name) and isinstance(n.ctx, (ast.Store, ast.Del)):
            stores[n.id] = stores.get(n.id, 0) + 1
        if isinstance(n, ast.Global):
            for g in n.names:
                stores[g] = stores.get(g, 0) + 2
        if isinstance(n, (ast.arg,)):
            pass
    for st in tree.body:
        if isinstance(st, ast.Assign) and len(st.targets) == 1 and \
                isinstance(st.targets[0], ast.Name) and \
                isinstance(st.value, ast.Constant) and \
                stores.get(st.targets[0].id, 0) == 1 and \
                isinstance(st.value.value, (str, int, float, bool,
                                            type(None))):
            consts[st.targets[0].id] = st.value
        if isinstance(st, ast.Assign) and len(st.targets) == 1 and \
                isinstance(st.targets[0], ast.Name) and \
                isinstance(st.value, ast.UnaryOp) and \
                isinstance(st.value.op, ast.USub) and \
                isinstance(st.value.operand, ast.Constant) and \
                stores.get(st.targets[0].id, 0) == 1:
            consts[st.targets[0].id] = st.value
    if not consts:
        return

    class R(ast.NodeTransformer):
        def __init__(self):
            self.shadow = [set()]

        def _fn(self, node):
            a = node.args
            names = {x.arg for x in a.posonlyargs + a.args + a.kwonlyargs}
            if a.vararg:
                names.add(a.vararg.arg)
            if a.kwarg:
                names.add(a.kwarg.arg)
            self.shadow.append(self.shadow[-1] | names)
            self.generic_visit(node)
            self.shadow.pop()
            return node
        visit_FunctionDef = _fn
        visit_Lambda = _fn

        def visit_Name(self, node):
            if isinstance(node.ctx, ast.Load) and node.id in consts and \
                    node.id not in self.shadow[-1] and len(self.shadow) > 1:
                import copy
                new = copy.deepcopy(consts[node.id])
                return ast.copy_location(new, node)
            return node
    R().visit(tree)
    ast.fix_missing_locations(tree)


class Module:
    def __init__(self, name, path, src):
        self.name = name
        self.path = path
        self.src = src
        self.lines = src.split('\n')
        try:
            import warnings
            with warnings.catch_warnings():
                warnings.simplefilter('ignore')
                self.tree = ast.parse(src, filename=path)
        except SyntaxError as e:
            raise AnalysisError('syntax error in %s: %s' % (path, e))
        _fold_module_constants(self.tree)
        self.imports = {}      # local alias -> qualified external / 'teneva' / 'teneva.mod:name'
        self.functions = {}    # top-level name -> Function
        self.classes = {}      # name -> ClassInfo
        self.globals = {}      # name -> value node (module level assigns)
        for node in ast.walk(self.tree):
            for ch in ast.iter_child_nodes(node):
                ch._parent = node

    def segment(self, node):
        try:
            return ast.get_source_segment(self.src, node) or ''
        except Exception:
            return ''


class Program:
    def __init__(self, repo):
        self.repo = repo
        self.pkg_dir = os.path.join(repo, 'teneva')
        if not os.path.isdir(self.pkg_dir):
            raise AnalysisError('package directory %s not found' % self.pkg_dir)
        self.modules = {}
        self.functions = {}
        self.classes = {}
        self.exports = {}      # exported name -> ('func', Function) | ('class', ClassInfo)
        self._load()

    # ------------------------------------------------------------------
    def _load(self):
        files = sorted(f for f in os.listdir(self.pkg_dir) if f.endswith('.py'))
        if not files:
            raise AnalysisError('no python files in %s' % self.pkg_dir)
        h = hashlib.sha256()
        for f in files:
            path = os.path.join(self.pkg_dir, f)
            with open(path, encoding='utf-8') as fh:
                src = fh.read()
            h.update(f.encode())
            h.update(src.encode())
            name = f[:-3]
            self.modules[name] = Module(name, path, src)
        self.digest = h.hexdigest()
        for mod in self.modules.values():
            self._index_module(mod)
        self._index_exports()

    def _index_module(self, mod):
        for node in mod.tree.body:
            if isinstance(node, ast.Import):
                for al in node.names:
                    local = al.asname or al.name.split('.')[0]
                    target = al.name if al.asname else al.name.split('.')[0]
                    mod.imports[local] = target
            elif isinstance(node, ast.ImportFrom):
                base = node.module or ''
                if node.level and node.level > 0:
                    for al in node.names:
                        mod.imports[al.asname or al.name] = \
                            'teneva.%s:%s' % (base, al.name)
                else:
                    for al in node.names:
                        mod.imports[al.asname or al.name] = base + '.' + al.name
            elif isinstance(node, ast.Try):
                for sub in node.body:
                    if isinstance(sub, ast.Import):
                        for al in sub.names:
                            mod.imports[al.asname or al.name.split('.')[0]] = \
                                al.name if al.asname else al.name.split('.')[0]
                    elif isinstance(sub, ast.Assign):
                        for t in sub.targets:
                            if isinstance(t, ast.Name):
                                mod.globals[t.id] = sub.value
            elif isinstance(node, (ast.FunctionDef, ast.AsyncFunctionDef)):
                fn = Function(mod, node, mod.name + '.' + node.name)
                mod.functions[node.name] = fn
                self._register(fn)
            elif isinstance(node, ast.ClassDef):
                ci = ClassInfo(mod, node)
                mod.classes[node.name] = ci
                self.classes[ci.qualname] = ci
                for sub in node.body:
                    if isinstance(sub, (ast.FunctionDef, ast.AsyncFunctionDef)):
                        fn = Function(mod, sub, ci.qualname + '.' + sub.name,
                                      cls=ci)
                        ci.methods[sub.name] = fn
                        self._register(fn)
            elif isinstance(node, ast.Assign):
                for t in node.targets:
                    if isinstance(t, ast.Name):
                        mod.globals[t.id] = node.value

    def _register(self, fn):
        self.functions[fn.qualname] = fn
        # nested defs / lambdas assigned to names are registered lazily by
        # the interpreter; nested defs get a qualname for reporting
        for sub in ast.walk(fn.node):
            if sub is fn.node:
                continue
            if isinstance(sub, (ast.FunctionDef, ast.AsyncFunctionDef)):
                # only direct nesting level matters for names
                q = fn.qualname + '.' + sub.name
                if q not in self.functions:
                    nf = Function(fn.module, sub, q, parent=fn, cls=fn.cls)
                    fn.nested[sub.name] = nf
                    self.functions[q] = nf

    def _index_exports(self):
        init = self.modules.get('__init__')
        if init is None:
            raise AnalysisError('teneva/__init__.py missing')
        for local, target in init.imports.items():
            if not target.startswith('teneva.'):
                continue
            modname, name = target[len('teneva.'):].split(':')
            mod = self.modules.get(modname)
            if mod is None:
                continue
            if name in mod.functions:
                self.exports[local] = ('func', mod.functions[name])
            elif name in mod.classes:
                self.exports[local] = ('class', mod.classes[name])

    # ------------------------------------------------------------------
    @property
    def public(self):
        """Public API: exported functions + public methods of exported classes."""
        out = []
        for name, (kind, obj) in sorted(self.exports.items()):
            if name.startswith('_'):
                continue
            if kind == 'func':
                out.append(obj)
            else:
                for mname, m in sorted(obj.methods.items()):
                    if not mname.startswith('_') or mname in ('__init__',
                                                               '__call__',
                                                               '__getitem__'):
                        out.append(m)
        return out

    def func(self, qualname):
        f = self.functions.get(qualname)
        if f is None:
            raise AnalysisError('anchor function %s not found in %s'
                                % (qualname, self.pkg_dir))
        return f

    def has_func(self, qualname):
        return qualname in self.functions

    def all_functions(self):
        return [f for q, f in sorted(self.functions.items())]

    # ------------------------------------------------------------------
    def dotted(self, node):
        """Attribute chain 'a.b.c' for Name/Attribute nodes, else None."""
        parts = []
        while isinstance(node, ast.Attribute):
            parts.append(node.attr)
            node = node.value
        if isinstance(node, ast.Name):
            parts.append(node.id)
            return '.'.join(reversed(parts))
        return None

    def resolve_dotted(self, mod, dotted, local_names=()):
        """Resolve a dotted name used in module ``mod``.

        Returns ('teneva', Function|ClassInfo) | ('ext', 'numpy.linalg.qr')
        | None (local / unknown)."""
        if dotted is None:
            return None
        head, _, rest = dotted.partition('.')
        if head in local_names:
            return None
        if head in mod.imports:
            target = mod.imports[head]
            if target == 'teneva':
                if not rest:
                    return ('pkg', None)
                name = rest.split('.')[0]
                if name in self.exports and '.' not in rest:
                    return ('teneva', self.exports[name][1])
                return ('teneva-unknown', rest)
            if target.startswith('teneva.'):
                modname, name = target[len('teneva.'):].split(':')
                m2 = self.modules.get(modname)
                if m2 and not rest:
                    if name in m2.functions:
                        return ('teneva', m2.functions[name])
                    if name in m2.classes:
                        return ('teneva', m2.classes[name])
                return None
            root = target.split('.')[0]
            full = target + ('.' + rest if rest else '')
            if root in EXTERNAL_ROOTS:
                return ('ext', full)
            return ('ext', full)
        if not rest:
            if head in mod.functions:
                return ('teneva', mod.functions[head])
            if head in mod.classes:
                return ('teneva', mod.classes[head])
        return None


def norm_src(mod, node):
    """Whitespace-normalised source text of a node (used for finding keys)."""
    s = mod.segment(node)
    return re.sub(r'\s+', ' ', s).strip()


def enclosing_function(prog, mod, node):
    cur = getattr(node, '_parent', None)
    chain = []
    while cur is not None:
        if isinstance(cur, (ast.FunctionDef, ast.AsyncFunctionDef, ast.ClassDef)):
            chain.append(cur.name)
        cur = getattr(cur, '_parent', None)
    if not chain:
        return None
    q = mod.name + '.' + '.'.join(reversed(chain))
    return prog.functions.get(q)
