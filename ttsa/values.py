"""Abstract values of the structured abstract interpreter.

One value record ``AV`` with several independent *facets*:

S  shape/kind   k, c, p, dims, dt, items, elem, lay
A  aliasing     org (labels of caller-owned buffers a value may share storage
                with), label/oid of heap objects (lists, dicts, objects)
R  provenance   pv (for random generators: 'seeded', 'param', 'global')
O  orthogonality orth ('cols' | 'rows' | 'sigma' | 'weighted' | 'half' | None)
U  units        lg (power-of-two exponent ledger, Lin), deg (degree in a named
                scalar, dict), unit (exponent of the data scale sigma)
G  NaN taint    taint (frozenset of source descriptions)
"""
import itertools
from fractions import Fraction
from .poly import Poly, Lin, fn_atom, same

_oid = itertools.count(1)

NOCONST = object()


class AV:
    __slots__ = ('k', 'c', 'p', 'dims', 'dt', 'items', 'elem', 'org', 'oid',
                 'label', 'pv', 'orth', 'lg', 'deg', 'unit', 'taint', 'lay',
                 'fn', 'env', 'self_', 'attrs', 'ext', 'keys', 'cls', 'src',
                 'note', 'uninit', 'maybe_none', 'nonneg', 'normed', 'idx', 'lo', 'nonlin',
                 'delta', 'cnt', 'doc', 'deg_alt', 'red', 'rel', 'degq')

    def __init__(self, k, **kw):
        self.k = k
        self.c = NOCONST
        self.p = None
        self.dims = None
        self.dt = None
        self.items = None
        self.elem = None
        self.org = frozenset()
        self.oid = None
        self.label = None
        self.pv = None
        self.orth = None
        self.lg = None
        self.deg = None
        self.unit = None
        self.taint = frozenset()
        self.lay = None
        self.fn = None
        self.env = None
        self.self_ = None
        self.attrs = None
        self.ext = None
        self.keys = None
        self.cls = None
        self.src = None
        self.note = None
        self.uninit = False
        self.maybe_none = False
        self.nonneg = False
        self.normed = False
        self.idx = None
        self.lo = None
        self.nonlin = False
        # identity pattern: (i, j) = the array is 1 where index_i == index_j,
        # 0 elsewhere and constant along every other axis; 'broken' = an
        # identity whose paired axes were scrambled by a reshape
        self.delta = None
        # number of mode-index terms summed into every entry, as a fraction
        # (num, den) of size polynomials; None = not tracked
        self.cnt = None
        # 'float:<param>': value of a public parameter documented as float
        # (and not as int) -- converting it to an integer loses information
        self.doc = None
        # when two paths with KNOWN but different degrees are joined: the
        # list of alternatives (deg itself is then None)
        self.deg_alt = None
        # what a full reduction measured ('maxmod', 'max-signed', 'mean', ...)
        self.red = None
        # relation to other abstract objects (by identity):
        #   ('row', M, i)   this vector is row i of the matrix object M
        #   ('gramrow', i)  this vector is M @ M[i]: entry i is |M[i]|**2 >= 0
        self.rel = None
        # True: the degree in the named scalars was lost (an operand of
        # unknown degree, or a join of different degrees).  deg None WITHOUT
        # this flag on an array means "does not depend on them" (degree 0).
        self.degq = False
        for a, v in kw.items():
            setattr(self, a, v)
        if k in ('list', 'dict', 'obj') and self.oid is None:
            self.oid = next(_oid)

    # ------------------------------------------------------------------
    def has_const(self):
        return self.c is not NOCONST

    def copy(self, **kw):
        n = AV(self.k)
        for a in AV.__slots__:
            setattr(n, a, getattr(self, a))
        for a, v in kw.items():
            setattr(n, a, v)
        return n

    @property
    def ndim(self):
        return None if self.dims is None else len(self.dims)

    def is_heap(self):
        return self.k in ('list', 'dict', 'obj')

    def key(self):
        """Structural key (used to dedupe states / return values)."""
        k = self.k
        if k in ('none', 'top'):
            return (k,)
        if k in ('bool', 'str'):
            return (k, self.c if self.has_const() else None)
        if k in ('int',):
            return (k, self.c if self.has_const() else None,
                    self.p.key() if self.p is not None else None)
        if k == 'float':
            return (k, self.c if self.has_const() else None, _fk(self))
        if k == 'arr':
            return (k, None if self.dims is None else tuple(
                None if d is None else d.key() for d in self.dims),
                self.dt, tuple(sorted(map(repr, self.org))), _fk(self),
                self.uninit)
        if k in ('list', 'tuple'):
            if self.items is not None:
                return (k, tuple(x.key() for x in self.items),
                        repr(self.label))
            return (k, 'elem', self.elem.key() if self.elem else None,
                    self.p.key() if self.p is not None else None,
                    repr(self.label))
        if k == 'dict':
            return (k, tuple(sorted(((repr(a), v.key())
                                     for a, v in (self.keys or {}).items()))),
                    self.elem.key() if self.elem is not None else None,
                    repr(self.label))
        if k == 'func':
            return (k, id(self.fn), id(self.env))
        if k == 'ext':
            return (k, self.ext)
        if k == 'gen':
            return (k, self.pv)
        if k == 'obj':
            return (k, self.oid)
        if k == 'set':
            return (k, None if self.items is None else
                    tuple(sorted(repr(x.c) for x in self.items)))
        return (k, id(self))

    def __repr__(self):
        k = self.k
        if k == 'arr':
            d = '?' if self.dims is None else '[' + ', '.join(
                '?' if x is None else repr(x) for x in self.dims) + ']'
            ex = ''
            if self.org:
                ex += ' org=%s' % sorted(map(repr, self.org))
            if self.orth:
                ex += ' orth=%s' % self.orth
            return 'Arr%s%s%s' % (d, ':' + self.dt if self.dt else '', ex)
        if k == 'int':
            if self.has_const():
                return 'Int(%r)' % (self.c,)
            return 'Int(%r)' % (self.p,)
        if k in ('float', 'bool', 'str'):
            return '%s(%r)' % (k, self.c if self.has_const() else '?')
        if k in ('list', 'tuple'):
            if self.items is not None:
                return '%s%r' % (k, self.items)
            return '%s<%r x %r>' % (k, self.elem, self.p)
        if k == 'dict':
            return 'dict%r' % (self.keys,)
        if k == 'func':
            return 'func<%s>' % (getattr(self.fn, 'qualname', self.fn),)
        if k == 'ext':
            return 'ext<%s>' % self.ext
        return k


def _fk(v):
    return (v.orth, v.lg.key() if v.lg is not None else None,
            tuple(sorted(v.deg.items())) if v.deg else None,
            v.unit, tuple(sorted(v.taint)) if v.taint else None)


# ---------------------------------------------------------------------------
# constructors

def TOP(note=None):
    return AV('top', note=note)


def NONE():
    return AV('none', c=None)


def BOOL(c=NOCONST):
    return AV('bool', c=c)


def INT(x=None):
    """x: python int | Poly | None."""
    if x is None:
        return AV('int')
    if isinstance(x, bool):
        x = int(x)
    if isinstance(x, int):
        return AV('int', c=x, p=Poly.const(x))
    if isinstance(x, Fraction) and x.denominator == 1:
        return AV('int', c=int(x), p=Poly.const(x))
    if isinstance(x, Poly):
        ci = x.as_int()
        if ci is not None:
            return AV('int', c=ci, p=x)
        return AV('int', p=x)
    raise TypeError(x)


def FLOAT(c=NOCONST, **kw):
    return AV('float', c=c, **kw)


def STR(c=NOCONST):
    return AV('str', c=c)


def ARR(dims=None, dt=None, **kw):
    if dims is not None:
        dims = tuple(None if d is None else Poly.coerce(d) for d in dims)
    return AV('arr', dims=dims, dt=dt, **kw)


def LIST(items=None, elem=None, length=None, **kw):
    return AV('list', items=items, elem=elem, p=length, **kw)


def TUPLE(items):
    return AV('tuple', items=list(items))


def DICT(keys=None, **kw):
    return AV('dict', keys=dict(keys or {}), **kw)


def EXT(name):
    return AV('ext', ext=name)


def GEN(pv):
    return AV('gen', pv=pv)


class SymKey(object):
    """A dictionary key that is not a literal: a symbolic integer or a tuple
    of integers / strings (memo tables keyed by sizes).  Two keys are the
    same key when they are the same expressions."""
    __slots__ = ('r', 'av')

    def __init__(self, r, av):
        self.r = r
        self.av = av

    def __hash__(self):
        return hash(self.r)

    def __eq__(self, other):
        return isinstance(other, SymKey) and self.r == other.r

    def __repr__(self):
        return 'SymKey%r' % (self.r,)


def dict_key(idx):
    """Hashable key for an abstract subscript of a dict, or None."""
    if idx is None:
        return None
    if idx.k in ('str', 'int', 'bool') and idx.has_const():
        return idx.c
    if idx.k == 'int' and idx.p is not None:
        return SymKey(('p', repr(idx.p.key())), idx)
    if idx.k == 'tuple' and idx.items is not None:
        parts = []
        for x in idx.items:
            kx = dict_key(x)
            if kx is None:
                return None
            parts.append(kx.r if isinstance(kx, SymKey) else ('c', kx))
        return SymKey(('t',) + tuple(parts), idx)
    return None


def from_const(c):
    if isinstance(c, SymKey):
        return c.av
    if c is None:
        return NONE()
    if isinstance(c, bool):
        return BOOL(c)
    if isinstance(c, int):
        return INT(c)
    if isinstance(c, float):
        return FLOAT(c)
    if isinstance(c, str):
        return STR(c)
    if c is Ellipsis:
        return AV('ellipsis')
    return TOP()


# ---------------------------------------------------------------------------
# joins

def join_dim(a, b):
    if a is None or b is None:
        return None
    if same(a, b):
        return a
    return fn_atom('join', a, b)


def join(a, b):
    if a is b:
        return a
    if a is None:
        return b
    if b is None:
        return a
    if a.k != b.k:
        if a.k == 'none' and b.k not in ('top',):
            return b.copy(maybe_none=True)
        if b.k == 'none' and a.k not in ('top',):
            return a.copy(maybe_none=True)
        if {a.k, b.k} == {'int', 'float'}:
            return FLOAT(taint=a.taint | b.taint)
        if {a.k, b.k} == {'int', 'bool'}:
            return INT()
        t = TOP()
        t.org = a.org | b.org
        t.taint = a.taint | b.taint
        return t
    k = a.k
    if k in ('none', 'top'):
        return a
    if k in ('bool', 'str'):
        if a.has_const() and b.has_const() and a.c == b.c:
            return a
        return AV(k)
    if k == 'int':
        if a.p is not None and b.p is not None:
            if same(a.p, b.p):
                return a
            return INT(fn_atom('join', a.p, b.p))
        return INT()
    if k == 'float':
        r = FLOAT()
        if a.has_const() and b.has_const() and a.c == b.c:
            r.c = a.c
        _join_facets(r, a, b)
        return r
    if k == 'arr':
        if a.dims is None or b.dims is None or len(a.dims) != len(b.dims):
            dims = None
        else:
            dims = tuple(join_dim(x, y) for x, y in zip(a.dims, b.dims))
        r = AV('arr', dims=dims, dt=a.dt if a.dt == b.dt else None)
        r.org = a.org | b.org
        r.uninit = a.uninit or b.uninit
        r.maybe_none = a.maybe_none or b.maybe_none
        r.nonneg = a.nonneg and b.nonneg
        r.normed = a.normed and b.normed
        # row distinctness: 'distinct' must hold on both sides, 'stacked'
        # (rows may repeat) on either
        if a.note == b.note and a.note in ('distinct', 'stacked'):
            r.note = a.note
        elif {a.note, b.note} == {'distinct', 'stacked'}:
            r.note = 'stacked'
        _join_facets(r, a, b)
        return r
    if k in ('list', 'tuple'):
        if a.items is not None and b.items is not None and \
                len(a.items) == len(b.items):
            r = AV(k, items=[join(x, y) for x, y in zip(a.items, b.items)])
        else:
            ea = a.elem if a.items is None else _join_all(a.items)
            eb = b.elem if b.items is None else _join_all(b.items)
            r = AV(k, elem=join(ea, eb) if ea is not None and eb is not None
                   else (ea or eb))
        r.org = a.org | b.org
        r.label = a.label if a.label == b.label else (
            ('J', a.label, b.label) if (a.label or b.label) else None)
        return r
    if k == 'dict':
        keys = {}
        for kk in set(a.keys or {}) | set(b.keys or {}):
            va = (a.keys or {}).get(kk)
            vb = (b.keys or {}).get(kk)
            keys[kk] = join(va, vb) if va is not None and vb is not None \
                else (va or vb).copy(maybe_none=True)
        r = AV('dict', keys=keys)
        if a.elem is not None and b.elem is not None:
            r.elem = join(a.elem, b.elem)
        else:
            r.elem = a.elem or b.elem
        r.label = a.label if a.label == b.label else (
            ('J', a.label, b.label) if (a.label or b.label) else None)
        return r
    if k == 'gen':
        if a.pv == b.pv:
            return a
        pvs = {a.pv, b.pv}
        if 'global' in pvs:
            return GEN('global')
        if pvs <= {'seeded', 'param'}:
            return GEN('seeded')
        return GEN(None)
    if k == 'func':
        if a.fn is b.fn:
            return a
        return TOP()
    if k == 'ext':
        return a if a.ext == b.ext else TOP()
    if k == 'obj':
        return a if a.oid == b.oid else TOP()
    if k == 'set':
        if a.items is not None and b.items is not None and \
                sorted(repr(x.c) for x in a.items) == \
                sorted(repr(x.c) for x in b.items):
            return a
        return AV('set')
    return a


def _join_all(items):
    r = None
    for x in items:
        r = x if r is None else join(r, x)
    return r


def _is_zero_const(v):
    return v.has_const() and isinstance(v.c, (int, float)) and v.c == 0


def _join_facets(r, a, b):
    r.orth = a.orth if a.orth == b.orth else None
    r.lg = a.lg if (a.lg is not None and b.lg is not None and a.lg == b.lg) \
        else None
    # the literal 0 is zero at every scale
    if r.lg is None and _is_zero_const(a) and b.lg is not None:
        r.lg = b.lg
    if r.lg is None and _is_zero_const(b) and a.lg is not None:
        r.lg = a.lg
    r.deg = a.deg if a.deg == b.deg else None
    if r.deg is None:
        alts = []
        for x in (a, b):
            if x.deg is not None:
                alts.append(x.deg)
            elif x.deg_alt:
                alts.extend(x.deg_alt)
            elif x.has_const() and isinstance(x.c, (int, float)):
                alts.append({})
            else:
                alts = None
                break
        if alts and len(alts) <= 8:
            r.deg_alt = alts
        r.degq = True
    r.degq = bool(r.degq or a.degq or b.degq)
    r.unit = a.unit if a.unit == b.unit else None
    r.red = a.red if a.red == b.red else None
    r.taint = a.taint | b.taint


def join_all(vals):
    return _join_all(list(vals))
