"""Regenerate MANIFEST.json from ttsa/manifest_data.py (kept in one place)."""
import json, sys
sys.path.insert(0, '/verif')
from ttsa import manifest_data as md
checks = []
for pid in sorted(md.CLAIMS):
    c = md.CLAIMS[pid]
    checks.append({
        'property_id': pid,
        'quick_cmd': '/venv/bin/python -m ttsa check %s --tier quick' % pid,
        'thorough_cmd': '/venv/bin/python -m ttsa check %s --tier thorough' % pid,
        'evidence_file': '/verif/evidence/%s.json' % pid,
        'replay_cmd_template': 'cat {path}',
        'engine': 'ttsa',
        'level_claimed': {'category': 'other', 'text': c['text'],
                          'design_ref': c.get('design_ref', 'DESIGN.md section 4 / ' + pid)},
        'level_note': c['note'],
        'technique': c['technique'],
    })
man = {
    'version': 1,
    'setup_cmd': 'true',
    'hooks': {'guard': 'TENEVA_VERIF', 'enable': 'no hooks: the checks read /repo/teneva/*.py as text (ast); nothing is built or instrumented',
              'baseline_off_cmd': 'cd /repo && /venv/bin/python -m pytest -ra -q -p no:cacheprovider --timeout=900 --continue-on-collection-errors',
              'source_commits': [], 'add_only': True},
    'engines': [{'name': 'ttsa', 'path': '/verif/ttsa', 'serves_properties': sorted(md.CLAIMS),
                 'kind_free_text': 'repository-specific static analysis: structured abstract interpreter over the Python ast (symbolic shapes, alias/effect, RNG provenance, orthogonality typestate, units/ledger, NaN taint) plus protocol / callability / formula rules; no teneva code is imported or executed'}],
    'checks': checks,
    'not_applicable': [{'property_id': p, 'reason': r} for p, r in sorted(md.NOT_APPLICABLE.items())],
    'notes': md.NOTES,
}
json.dump(man, open('/verif/MANIFEST.json', 'w'), indent=1)
print('claimed', len(checks), 'n/a', len(man['not_applicable']))
