"""Whole-package behaviour-preserving rewrites ("global twins").

Every check must stay silent (exit 0) on each rewritten copy of /repo/teneva:

  unparse   ast.unparse round trip (formatting, quotes, redundant parentheses)
  rename    every local variable of every function gets a new name
  flipcmp   a < b -> b > a, a <= b -> b >= a, a == b -> b == a, ...
  flipif    if c: A else: B  ->  if not c: B else: A
  elsewrap  if c: <exit>; rest   ->  if c: <exit> else: rest
  kwargs    positional arguments of calls of teneva functions -> keywords
  swapstmt  adjacent independent, side-effect free assignments are swapped
  tmpvar    x = f(g(a), ..)  ->  t = g(a); x = f(t, ..)   (first argument)
  comp2loop x = [e for v in it]  ->  x = []; for v in it: x.append(e)

The copies live under a fresh temporary directory which is removed at the end.
Usage: /venv/bin/python tools/global_twins.py [kind ...] [--props C01,C02]
"""
import ast
import glob
import os
import shutil
import subprocess
import sys
import tempfile
from concurrent.futures import ThreadPoolExecutor

REPO = '/repo'
VERIF = os.path.dirname(os.path.dirname(os.path.abspath(__file__)))


class Rename(ast.NodeTransformer):
    def __init__(self):
        self.depth = 0
        self.names = None

    def _locals(self, fn):
        stores, params, glob = set(), set(), set()
        for n in ast.walk(fn):
            if isinstance(n, (ast.FunctionDef, ast.AsyncFunctionDef,
                              ast.Lambda)):
                a = n.args
                for x in a.posonlyargs + a.args + a.kwonlyargs:
                    params.add(x.arg)
                if a.vararg:
                    params.add(a.vararg.arg)
                if a.kwarg:
                    params.add(a.kwarg.arg)
                if n is not fn and not isinstance(n, ast.Lambda):
                    params.add(n.name)
            elif isinstance(n, ast.Name) and isinstance(n.ctx, ast.Store):
                stores.add(n.id)
            elif isinstance(n, (ast.Global, ast.Nonlocal)):
                glob.update(n.names)
            elif isinstance(n, ast.ExceptHandler) and n.name:
                glob.add(n.name)
        return stores - params - glob

    def visit_FunctionDef(self, node):
        if self.depth == 0:
            self.names = self._locals(node)
        self.depth += 1
        self.generic_visit(node)
        self.depth -= 1
        if self.depth == 0:
            self.names = None
        return node

    def visit_Name(self, node):
        if self.names and node.id in self.names:
            node.id = node.id + '_v'
        return node


FLIP = {ast.Lt: ast.Gt, ast.Gt: ast.Lt, ast.LtE: ast.GtE, ast.GtE: ast.LtE,
        ast.Eq: ast.Eq, ast.NotEq: ast.NotEq}


class FlipCmp(ast.NodeTransformer):
    def visit_Compare(self, node):
        self.generic_visit(node)
        if len(node.ops) == 1 and type(node.ops[0]) in FLIP:
            return ast.Compare(left=node.comparators[0],
                               ops=[FLIP[type(node.ops[0])]()],
                               comparators=[node.left])
        return node


class FlipIf(ast.NodeTransformer):
    def visit_If(self, node):
        self.generic_visit(node)
        if node.orelse and not (len(node.orelse) == 1 and
                                isinstance(node.orelse[0], ast.If)):
            return ast.If(test=ast.UnaryOp(op=ast.Not(), operand=node.test),
                          body=node.orelse, orelse=node.body)
        return node


def _exits(stmts):
    return bool(stmts) and isinstance(stmts[-1], (ast.Return, ast.Raise,
                                                  ast.Continue, ast.Break))


class ElseWrap(ast.NodeTransformer):
    def _block(self, stmts):
        out = []
        i = 0
        while i < len(stmts):
            st = stmts[i]
            if isinstance(st, ast.If) and not st.orelse and \
                    _exits(st.body) and i + 1 < len(stmts):
                st.orelse = self._block(stmts[i + 1:])
                out.append(st)
                return out
            out.append(st)
            i += 1
        return out

    def generic_visit(self, node):
        super().generic_visit(node)
        for name in ('body', 'orelse', 'finalbody'):
            b = getattr(node, name, None)
            if isinstance(b, list) and b and isinstance(b[0], ast.stmt):
                setattr(node, name, self._block(b))
        return node


class Kwargs(ast.NodeTransformer):
    """f(a, b) -> f(p1=a, p2=b) for calls that resolve (by name) to a
    unique module-level function of the package."""
    SIGS = {}

    def visit_Call(self, node):
        self.generic_visit(node)
        name = None
        if isinstance(node.func, ast.Attribute) and \
                isinstance(node.func.value, ast.Name) and \
                node.func.value.id == 'teneva':
            name = node.func.attr
        elif isinstance(node.func, ast.Name):
            name = node.func.id
        params = self.SIGS.get(name)
        if not params or any(isinstance(a, ast.Starred) for a in node.args) \
                or len(node.args) > len(params):
            return node
        # keep the first argument positional (the usual style), name the rest
        keep = node.args[:1]
        named = [ast.keyword(arg=params[i], value=a)
                 for i, a in enumerate(node.args) if i >= 1]
        if any(k.arg in {x.arg for x in node.keywords} for k in named):
            return node
        node.args = keep
        node.keywords = named + node.keywords
        return node


TIER = ['quick']
PURE = {'len', 'int', 'float', 'min', 'max', 'abs', 'range', 'list', 'tuple'}


def _pure(node):
    for c in ast.walk(node):
        if isinstance(c, ast.Call):
            f = c.func
            if isinstance(f, ast.Name) and f.id in PURE:
                continue
            if isinstance(f, ast.Attribute) and \
                    isinstance(f.value, ast.Name) and f.value.id == 'np' and \
                    f.attr not in ('random',):
                continue
            return False
        if isinstance(c, (ast.Yield, ast.Await, ast.NamedExpr)):
            return False
    return True


def _rw(st):
    w = {t.id for t in st.targets if isinstance(t, ast.Name)}
    for t in st.targets:
        if isinstance(t, ast.Tuple):
            w |= {e.id for e in t.elts if isinstance(e, ast.Name)}
    r = {x.id for x in ast.walk(st.value) if isinstance(x, ast.Name)}
    return r, w


def _simple(st):
    if not isinstance(st, ast.Assign):
        return False
    for t in st.targets:
        if isinstance(t, ast.Name):
            continue
        if isinstance(t, ast.Tuple) and all(isinstance(e, ast.Name)
                                            for e in t.elts):
            continue
        return False
    return _pure(st.value)


class SwapStmt(ast.NodeTransformer):
    def _block(self, stmts):
        out = list(stmts)
        i = 0
        while i + 1 < len(out):
            a, b = out[i], out[i + 1]
            if _simple(a) and _simple(b):
                ra, wa = _rw(a)
                rb, wb = _rw(b)
                if not (wa & (rb | wb)) and not (wb & ra):
                    out[i], out[i + 1] = b, a
                    i += 2
                    continue
            i += 1
        return out

    def generic_visit(self, node):
        super().generic_visit(node)
        for name in ('body', 'orelse', 'finalbody'):
            blk = getattr(node, name, None)
            if isinstance(blk, list) and blk and isinstance(blk[0], ast.stmt):
                setattr(node, name, self._block(blk))
        return node


class TmpVar(ast.NodeTransformer):
    def __init__(self):
        self.n = 0

    def _block(self, stmts):
        out = []
        for st in stmts:
            if isinstance(st, (ast.Assign, ast.Return)) and \
                    isinstance(st.value, ast.Call) and st.value.args and \
                    isinstance(st.value.args[0], ast.Call) and \
                    isinstance(st.value.func, (ast.Name, ast.Attribute)) and \
                    not any(isinstance(x, (ast.Lambda, ast.GeneratorExp,
                                           ast.ListComp, ast.Starred))
                            for x in ast.walk(st.value.args[0])):
                self.n += 1
                name = '_tmp%d' % self.n
                out.append(ast.Assign(
                    targets=[ast.Name(id=name, ctx=ast.Store())],
                    value=st.value.args[0]))
                st.value.args[0] = ast.Name(id=name, ctx=ast.Load())
            out.append(st)
        return out

    def generic_visit(self, node):
        super().generic_visit(node)
        for name in ('body', 'orelse', 'finalbody'):
            blk = getattr(node, name, None)
            if isinstance(blk, list) and blk and isinstance(blk[0], ast.stmt):
                setattr(node, name, self._block(blk))
        return node


class Comp2Loop(ast.NodeTransformer):
    """Plain single-generator list comprehensions bound to a name that does
    not occur in the comprehension itself."""

    def _block(self, stmts):
        out = []
        for st in stmts:
            if isinstance(st, ast.Assign) and len(st.targets) == 1 and \
                    isinstance(st.targets[0], ast.Name) and \
                    isinstance(st.value, ast.ListComp) and \
                    len(st.value.generators) == 1 and \
                    not st.value.generators[0].is_async:
                g = st.value.generators[0]
                name = st.targets[0].id
                used = {x.id for x in ast.walk(st.value)
                        if isinstance(x, ast.Name)}
                inner = any(isinstance(x, (ast.ListComp, ast.GeneratorExp,
                                           ast.Lambda))
                            for x in ast.walk(st.value.elt))
                if name not in used and not inner:
                    body = ast.Expr(value=ast.Call(
                        func=ast.Attribute(
                            value=ast.Name(id=name, ctx=ast.Load()),
                            attr='append', ctx=ast.Load()),
                        args=[st.value.elt], keywords=[]))
                    for cond in reversed(g.ifs):
                        body = ast.If(test=cond, body=[body], orelse=[])
                    out.append(ast.Assign(
                        targets=[ast.Name(id=name, ctx=ast.Store())],
                        value=ast.List(elts=[], ctx=ast.Load())))
                    out.append(ast.For(target=g.target, iter=g.iter,
                                       body=[body], orelse=[]))
                    continue
            out.append(st)
        return out

    def generic_visit(self, node):
        super().generic_visit(node)
        for name in ('body', 'orelse', 'finalbody'):
            blk = getattr(node, name, None)
            if isinstance(blk, list) and blk and isinstance(blk[0], ast.stmt):
                setattr(node, name, self._block(blk))
        return node


KINDS = {'unparse': None, 'rename': Rename, 'flipcmp': FlipCmp,
         'flipif': FlipIf, 'elsewrap': ElseWrap, 'kwargs': Kwargs,
         'swapstmt': SwapStmt, 'tmpvar': TmpVar, 'comp2loop': Comp2Loop}


def _collect_sigs():
    sigs, dup = {}, set()
    for f in glob.glob(os.path.join(REPO, 'teneva', '*.py')):
        tree = ast.parse(open(f).read())
        for n in tree.body:
            if isinstance(n, ast.FunctionDef):
                a = n.args
                if a.vararg or a.kwarg or a.posonlyargs:
                    dup.add(n.name)
                    continue
                if n.name in sigs:
                    dup.add(n.name)
                sigs[n.name] = [x.arg for x in a.args]
    for d in dup:
        sigs.pop(d, None)
    return sigs


def rewrite(kind, dst):
    if kind == 'kwargs' and not Kwargs.SIGS:
        Kwargs.SIGS = _collect_sigs()
    shutil.copytree(os.path.join(REPO, 'teneva'), os.path.join(dst, 'teneva'))
    for f in glob.glob(os.path.join(dst, 'teneva', '*.py')):
        with open(f) as fh:
            src = fh.read()
        tree = ast.parse(src)
        tr = KINDS[kind]
        if tr is not None:
            tree = tr().visit(tree)
            ast.fix_missing_locations(tree)
        out = ast.unparse(tree) + '\n'
        compile(out, f, 'exec')
        with open(f, 'w') as fh:
            fh.write(out)


def run(args):
    kind, pid, dst = args
    r = subprocess.run(['/venv/bin/python', '-m', 'ttsa', 'check', pid,
                        '--repo', dst, '--no-evidence', '--tier', TIER[0]],
                       cwd=VERIF,
                       capture_output=True, text=True)
    lines = [l for l in (r.stdout + r.stderr).splitlines()
             if ('::' in l and '[' in l) or 'ANALYSIS-ERROR' in l]
    return kind, pid, r.returncode, lines[:3]


def main():
    argv = [a for a in sys.argv[1:] if not a.startswith('--')]
    kinds = argv or list(KINDS)
    props = ['C%02d' % i for i in range(1, 21)]
    for a in sys.argv[1:]:
        if a.startswith('--props='):
            props = a.split('=', 1)[1].split(',')
        if a.startswith('--tier='):
            TIER[0] = a.split('=', 1)[1]
    root = tempfile.mkdtemp(prefix='ttsa-twins-')
    bad = 0
    try:
        jobs = []
        for k in kinds:
            dst = os.path.join(root, k)
            os.makedirs(dst)
            rewrite(k, dst)
            jobs += [(k, p, dst) for p in props]
        with ThreadPoolExecutor(max_workers=14) as ex:
            for kind, pid, rc, lines in ex.map(run, jobs):
                if rc != 0:
                    bad += 1
                    print('ALARM %-8s %s exit=%d' % (kind, pid, rc))
                    for l in lines:
                        print('      ' + l[:300])
        print('global twins: %d runs, %d alarms' % (len(jobs), bad))
    finally:
        shutil.rmtree(root, ignore_errors=True)
    return 1 if bad else 0


if __name__ == '__main__':
    sys.exit(main())
