"""Confirm a seeded change (tests same, demo fails with / passes without) in a
fresh scratch worktree and run every claimed check against it."""
import json, os, subprocess, sys, shutil, tempfile
# the checker tree to run (a frozen copy while the live one is being edited)
HOME = os.environ.get('TTSA_HOME', '/verif')
sid = sys.argv[1]
src = sys.argv[2] if len(sys.argv) > 2 else '/tmp/seeds/' + sid
wt = tempfile.mkdtemp(prefix='seedwt-')
os.rmdir(wt)
def sh(cmd, cwd=None, timeout=1500):
    r = subprocess.run(cmd, shell=True, cwd=cwd, capture_output=True, text=True, timeout=timeout)
    return r.returncode, (r.stdout + r.stderr)
res = {'id': sid}
try:
    sh('git -C /repo worktree add -q --detach %s HEAD' % wt)
    rc, out = sh('/venv/bin/python %s/demo.py' % src, cwd=wt, timeout=300)
    res['demo_without'] = rc
    rc, out = sh('git apply %s/patch.diff' % src, cwd=wt)
    res['apply'] = rc
    if rc != 0:
        res['apply_err'] = out[-300:]
    rc, out = sh('/venv/bin/python %s/demo.py' % src, cwd=wt, timeout=300)
    res['demo_with'] = rc
    res['demo_msg'] = out.strip().splitlines()[-1][:200] if out.strip() else ''
    if '--notest' not in sys.argv:
        rc, out = sh('/venv/bin/python -m pytest -q -p no:cacheprovider --timeout=900 test 2>&1 | tail -3', cwd=wt)
        res['tests'] = out.strip().splitlines()[-1] if out.strip() else ''
    man = json.load(open(HOME + '/MANIFEST.json'))
    fired = {}
    for c in man['checks']:
        pid = c['property_id']
        rc, out = sh('/venv/bin/python -m ttsa check %s --repo %s --no-evidence' % (pid, wt), cwd=HOME, timeout=600)
        if rc != 0:
            lines = [l for l in out.splitlines() if '[' in l and ']' in l and '::' in l or 'ANALYSIS-ERROR' in l]
            fired[pid] = {'exit': rc, 'report': [l[:260] for l in lines[:3]]}
    res['fired'] = fired
finally:
    sh('git -C /repo worktree remove --force %s' % wt)
print(json.dumps(res, indent=1))
