#!/bin/sh
# run every claimed quick check; print one line each
cd /verif
for p in $(/venv/bin/python -c "import json;print(' '.join(c['property_id'] for c in json.load(open('MANIFEST.json'))['checks']))"); do
  /venv/bin/python -m ttsa check $p ${1:+--tier $1} 2>&1 | grep -E "^(OK|VIOLATION|ANALYSIS-ERROR|KNOWN)" | head -3
done
