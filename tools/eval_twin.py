"""Confirm a behaviour-preserving refactoring stored under /verif/twins/<id>/
and run every claimed check against it: all of them must stay silent of
VIOLATION lines (exit 0, or exit 2 when an anchor can no longer be followed).

  python tools/eval_twin.py <id> [<dir>] [--notest] [--noequiv]

The twin's own equivalence demonstration (equiv.py, written by the sub-agent
that produced the refactoring) compares the pristine package with the
refactored one in two subprocesses; it expects the pristine copy at
/tmp/twinsA/<Cxx>/orig (or /tmp/twinsB/<Cxx>/orig) and the refactored tree at /tmp/wt/<Cxx>.  Both are
created here as scratch git worktrees of /repo and removed afterwards.
"""
import json
import os
import shutil
import subprocess
import sys

# the checker tree to run (a frozen copy while the live one is being edited)
HOME = os.environ.get('TTSA_HOME', '/verif')

sid = sys.argv[1]
args = [a for a in sys.argv[2:] if not a.startswith('--')]
src = args[0] if args else HOME + '/twins/' + sid
prop = sid.split('-')[0]
# the sub-agent rounds wrote their demonstrations against different scratch
# roots (/tmp/twinsA, /tmp/twinsB): follow the one named in equiv.py
root = 'twinsA'
try:
    import re as _re
    _m = _re.search(r'/tmp/(twins[A-Z])/', open(src + '/equiv.py').read())
    if _m:
        root = _m.group(1)
except OSError:
    pass
base = '/tmp/%s/%s' % (root, prop)
orig = base + '/orig'
wt = '/tmp/wt/%s' % prop


def sh(cmd, cwd=None, timeout=3000):
    r = subprocess.run(cmd, shell=True, cwd=cwd, capture_output=True,
                       text=True, timeout=timeout)
    return r.returncode, (r.stdout + r.stderr)


res = {'id': sid}
made = []
try:
    os.makedirs(base, exist_ok=True)
    for path in (orig, wt):
        if os.path.exists(path):
            sh('git -C /repo worktree remove --force %s' % path)
            shutil.rmtree(path, ignore_errors=True)
        os.makedirs(os.path.dirname(path), exist_ok=True)
        sh('git -C /repo worktree add -q --detach %s HEAD' % path)
        made.append(path)
    rc, out = sh('git apply %s/patch.diff' % src, cwd=wt)
    res['apply'] = rc
    if rc != 0:
        res['apply_err'] = out[-300:]
    if '--notest' not in sys.argv:
        rc, out = sh('/venv/bin/python -m pytest -q -p no:cacheprovider '
                     'test 2>&1 | tail -3', cwd=wt)
        res['tests'] = out.strip().splitlines()[-1] if out.strip() else ''
    if '--noequiv' not in sys.argv and os.path.exists(src + '/equiv.py'):
        shutil.copy(src + '/equiv.py', base + '/equiv.py')
        rc, out = sh('/venv/bin/python equiv.py', cwd=base, timeout=3000)
        res['equiv_exit'] = rc
        res['equiv_msg'] = out.strip().splitlines()[-1][:200] \
            if out.strip() else ''
    man = json.load(open(HOME + '/MANIFEST.json'))
    fired = {}
    for c in man['checks']:
        pid = c['property_id']
        rc, out = sh('/venv/bin/python -m ttsa check %s --repo %s '
                     '--no-evidence' % (pid, wt), cwd=HOME, timeout=900)
        if rc != 0:
            lines = [l for l in out.splitlines()
                     if ('[' in l and ']' in l and '::' in l) or
                     'ANALYSIS-ERROR' in l]
            fired[pid] = {'exit': rc, 'report': [l[:300] for l in lines[:4]]}
    res['alarms'] = fired
finally:
    for path in made:
        sh('git -C /repo worktree remove --force %s' % path)
        shutil.rmtree(path, ignore_errors=True)
    if '--keep' not in sys.argv:
        for f in ('equiv.py',):
            try:
                os.remove(base + '/' + f)
            except OSError:
                pass
print(json.dumps(res, indent=1))
