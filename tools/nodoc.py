import ast,sys
for fn in sys.argv[1:]:
    src=open(fn).read()
    tree=ast.parse(src)
    lines=src.split('\n')
    drop=set()
    for node in ast.walk(tree):
        if isinstance(node,(ast.FunctionDef,ast.ClassDef,ast.Module)):
            b=node.body
            if b and isinstance(b[0],ast.Expr) and isinstance(b[0].value,ast.Constant) and isinstance(b[0].value.value,str):
                for l in range(b[0].lineno,b[0].end_lineno+1): drop.add(l)
    print('#'*20,fn)
    for i,l in enumerate(lines,1):
        if i not in drop and l.strip(): print(f'{i:4d} {l}')
