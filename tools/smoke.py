import sys, traceback
sys.path.insert(0,'/verif')
from ttsa import model, interp, specs
from ttsa.specs import *
prog = model.Program(sys.argv[2] if len(sys.argv)>2 else '/repo')
def run(q, args, opts=None, show_ok=False):
    I = interp.Interp(prog, opts or {})
    try:
        r = I.run_function(prog.func(q), args)
    except Exception:
        traceback.print_exc(); return None
    print('==', q, '->', r)
    for s in I.sites:
        if s.status!='ok' or show_ok:
            print('   ', s.rule, s.where, s.status, '|', s.construct[:70], '|', s.detail, s.facts if s.status!='ok' else '')
    for e in I.effects:
        print('    EFFECT', e.kind, sorted(map(str,e.labels)), e.where, e.construct[:60])
    return I
exec(open(sys.argv[1]).read())
