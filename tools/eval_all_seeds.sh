#!/bin/bash
# Run every stored seed against every claimed check (checks only, no tests /
# demo): tools/eval_all_seeds.sh <outdir> [jobs]
out=${1:-/tmp/evall}; jobs=${2:-8}
mkdir -p $out; cd /verif
ls seeded | xargs -P $jobs -I{} sh -c "/venv/bin/python tools/eval_seed.py {} /verif/seeded/{} --notest > $out/{}.json 2>/dev/null"
/venv/bin/python - $out <<'PY'
import json, glob, sys, os
c = e2 = 0; ex2 = []; miss = []
fs = sorted(glob.glob(sys.argv[1] + '/*.json'))
for f in fs:
    r = json.load(open(f)); ex = {k: v['exit'] for k, v in r['fired'].items()}
    if 1 in ex.values(): c += 1
    elif ex: ex2.append(r['id'])
    else: miss.append(r['id'])
print(len(fs), 'seeds; caught', c, 'exit2-only', ex2, 'missed', miss)
PY
